/// Test generated for harness `c16_denom::c16_oracle_overflow` 
///
/// Check for `assertion`: "attempt to multiply with overflow"

#[test]
fn kani_concrete_playback_c16_oracle_overflow_15535055314902079373() {
    let concrete_vals: Vec<Vec<u8>> = vec![
        // 1
        vec![1],
        // 18446744073709551615ul
        vec![255, 255, 255, 255, 255, 255, 255, 255],
    ];
    kani::concrete_playback_run(concrete_vals, c16_oracle_overflow);
}

