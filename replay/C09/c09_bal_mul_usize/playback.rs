/// Test generated for harness `c09_value::c09_bal_mul_usize` 
///
/// Check for `assertion`: "assertion failed: r.is_some()"

#[test]
fn kani_concrete_playback_c09_bal_mul_usize_2602013508608092723() {
    let concrete_vals: Vec<Vec<u8>> = vec![
        // 0
        vec![0, 0, 0, 0, 0, 0, 0, 0],
        // 18445618173802708993ul
        vec![1, 0, 0, 0, 0, 0, 252, 255],
    ];
    kani::concrete_playback_run(concrete_vals, c09_bal_mul_usize);
}

