#!/usr/bin/env python3
"""Confirms a seeded change in a scratch worktree: the patch applies, the touched crate's existing
tests pass with it, the demonstration fails with it and passes without it. Writes the outcome into
seeded/<id>/meta.json under "validated"."""
import json, os, subprocess, sys, shutil, re
WT = sys.argv[1]
ids = sys.argv[2:]
CRATE = {"C09": ("zcash_protocol", "components/zcash_protocol"), "C17z": ("zcash_protocol", "components/zcash_protocol"),
         "C16": ("zcash_pool_migration", "zcash_pool_migration"), "C17": ("zcash_pool_migration", "zcash_pool_migration"),
         "C19": ("equihash", "components/equihash"), "C12": ("zip321", "components/zip321"),
         "C10": ("zcash_address", "components/zcash_address")}
def run(cmd, cwd=WT):
    p = subprocess.run(cmd, cwd=cwd, shell=True, capture_output=True, text=True)
    return p.returncode, p.stdout + p.stderr
for sid in ids:
    d = os.path.join("/verif/seeded", sid)
    meta = json.load(open(os.path.join(d, "meta.json")))
    files = meta.get("files_touched", [])
    prop = sid.split("-")[0]
    key = prop
    if prop == "C17" and any("zcash_protocol" in f for f in files):
        key = "C17z"
    feats = ""
    if key in CRATE:
        crate, cdir = CRATE[key]
    else:
        f0 = files[0]
        for cd, cn, ft in [("zcash_client_backend", "zcash_client_backend", " --features orchard,transparent-inputs,unstable-spanning-tree"),
                           ("zcash_primitives", "zcash_primitives", ""), ("zcash_history", "zcash_history", ""),
                           ("zcash_pool_migration", "zcash_pool_migration", ""), ("components/zcash_protocol", "zcash_protocol", ""),
                           ("zcash_client_sqlite", "zcash_client_sqlite", ""), ("pczt", "pczt", ""), ("zcash_transparent", "zcash_transparent", ""),
                           ("components/zcash_encoding", "zcash_encoding@0.5.0", "")]:
            if f0.startswith(cd + "/"):
                cdir, crate, feats = cd, cn, ft
                break
    run("git checkout -- . && git clean -fdq -e target")
    demo_name = sid.lower().replace("-", "_") + "_demo"
    res = {}
    if os.path.exists(os.path.join(d, "demo.sh")):
        # demonstration is a script that expects to live at <worktree>/SEEDED/<mN>/demo.sh
        mdir = os.path.join(WT, "SEEDED", sid.split("-")[1])
        shutil.rmtree(mdir, ignore_errors=True)
        shutil.copytree(d, mdir)
        rc, out = run(f"sh SEEDED/{sid.split('-')[1]}/demo.sh 2>&1 | tail -8")
        res["demo_without_patch"] = "passes" if ("test result: ok" in out and "FAILED" not in out) else "FAILS"
        rc, out = run(f"git apply {d}/patch.diff")
        res["patch_applies"] = rc == 0
        rc, out = run(f"sh SEEDED/{sid.split('-')[1]}/demo.sh 2>&1 | tail -12")
        res["demo_with_patch"] = "fails" if ("test result: FAILED" in out or "error: test failed" in out) else "PASSES"
        shutil.rmtree(os.path.join(WT, "SEEDED"), ignore_errors=True)
    else:
        tdir = os.path.join(WT, cdir, "tests")
        os.makedirs(tdir, exist_ok=True)
        shutil.copyfile(os.path.join(d, "demo.rs"), os.path.join(tdir, demo_name + ".rs"))
        rc, out = run(f"cargo test --offline -j 6 -p {crate}{feats} --test {demo_name} 2>&1 | tail -5")
        res["demo_without_patch"] = "passes" if "test result: ok" in out else "FAILS"
        rc, out = run(f"git apply {d}/patch.diff")
        res["patch_applies"] = rc == 0
        rc, out = run(f"cargo test --offline -j 6 -p {crate}{feats} --test {demo_name} 2>&1 | tail -8")
        res["demo_with_patch"] = "fails" if ("test result: FAILED" in out or "error: test failed" in out) else "PASSES"
        os.remove(os.path.join(tdir, demo_name + ".rs"))
    extra = {"zcash_protocol": " -p zcash_pool_migration", "zip321": " -p zcash_protocol", "zcash_address": " -p f4jumble",
             "zcash_encoding@0.5.0": " -p zcash_history", "zcash_transparent": " -p zcash_primitives"}.get(crate, "")
    rc, out = run(f"cargo test --offline -j 6 -p {crate}{extra}{feats} 2>&1 | grep 'test result\\|error\\[' ")
    fails = [l for l in out.split("\n") if "FAILED" in l or "error[" in l]
    oks = re.findall(r"test result: ok\. (\d+) passed", out)
    res["existing_tests_with_patch"] = f"pass ({sum(map(int, oks))} tests)" if not fails and oks else "FAIL: " + " | ".join(fails)[:200]
    run("git checkout -- . && git clean -fdq -e target")
    res["ok"] = (res["demo_without_patch"] == "passes" and res["patch_applies"] and res["demo_with_patch"] == "fails"
                 and res["existing_tests_with_patch"].startswith("pass"))
    meta["validated"] = res
    json.dump(meta, open(os.path.join(d, "meta.json"), "w"), indent=1)
    print(sid, res)
