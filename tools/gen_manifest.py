#!/usr/bin/env python3
"""Regenerates /verif/MANIFEST.json from the per-property texts below and the harnesses present."""
import json, os, subprocess, sys
ROOT = os.path.dirname(os.path.dirname(os.path.abspath(__file__)))
sys.path.insert(0, ROOT)

TECH = "bounded symbolic execution of the compiled Rust code (Kani 0.68 -> CBMC 6.11, CaDiCaL SAT), kani::any() inputs, unwinding assertions on"

CLAIMS = {
 "C09": dict(
   text="Every public constructor, parser, conversion and operator of Zatoshis/ZatBalance is compared by the SAT solver with exact 128-bit integer arithmetic for ALL 64-bit operands (division: all dividends, a stated set of concrete divisors). Bounded model checking is the right level: the operand space is finite and the solver covers it completely, including the MAX_MONEY+-1 lattice the unit tests touch at three points.",
   note="Trusts Kani's MIR->goto translation, CBMC, CaDiCaL. Division/remainder is decided against the definition q*d+r=a only for d in {1,2,3,7,MAX_MONEY+1,u64::MAX} and against machine division for d in {MAX_MONEY, 2^32+1}; other divisors (a symbolic divisor, 5000, 10^8 did not finish) are outside the claim. Sum impls: 3 elements.",
   ref="§5 C09"),
 "C19": dict(
   text="Parameters: for ALL (n,k) in u32^2 whatever Params::new accepts satisfies every downstream precondition (no assert!/division by zero/overflow can fire). Decoding: for all byte strings of the exact length the decoder output equals an independent big-endian bit-slicer; every other length is rejected. One step of the tree validator from ARBITRARY children (all hashes, all indices) equals the definition (collision on the segment, ordering, distinctness, xor of tails, root zero test); leaves are derived from the right hash block and byte range for every index under an arbitrary hash function. Tree = structural recursion over these steps (stated, not solved end to end).",
   note="Hash abstraction: equihash::verify::generate_hash is stubbed by an arbitrary function in the leaf/grid harnesses, so nothing is claimed about BLAKE2b output values or personalisation. Children of 1, 2 and 4 indices; k=3 decoders for index widths 9..25 bits; whole-tree runs through is_valid_solution did not get through symex and are outside the claim. Uses the cfg(zcash_librustzcash_verif) hook module equihash::verif_hooks.",
   ref="§5 C19"),
}

NOT_APPLICABLE = {
 "C01": "ledger state and all its transitions are SQL executed by SQLite via FFI; symbolic execution of the Rust code cannot see them and no encodable kernel implies the property",
 "C02": "atomicity/crash consistency/snapshot isolation are provided by SQLite's transaction and journal machinery (C code behind FFI, crash points, concurrent connections): out of reach of Kani/CBMC",
 "C08": "spendability is decided by SQL predicates inside SQLite; proposal constructors render and re-parse ZIP 321 URIs (format!/nom) and notes made of curve points: not encodable",
 "C11": "every clause is a statement about ZIP 32 hashing, Jubjub/Pallas scalar multiplication and note encryption; abstracting them leaves nothing of the property",
 "C14": "Builder::build produces proofs, RedJubjub/RedPallas/ECDSA (secp256k1 C FFI) signatures and note ciphertexts; the clauses are about that crypto",
}

PENDING = "harnesses not built yet in this session (see DESIGN.md for the plan)"

def main():
    import importlib.machinery, importlib.util
    loader = importlib.machinery.SourceFileLoader("vt", os.path.join(ROOT, "vt"))
    spec = importlib.util.spec_from_loader("vt", loader); vt = importlib.util.module_from_spec(spec); loader.exec_module(vt)
    hs = vt.discover()
    props = [json.loads(l)["id"] for l in open(os.path.join(ROOT, "properties.jsonl"))]
    have = sorted({h["p"] for h in hs})
    checks = []
    for p in props:
        if p in have and p in CLAIMS:
            c = CLAIMS[p]
            crates = sorted({h["crate"] for h in hs if h["p"] == p})
            checks.append({
                "property_id": p,
                "quick_cmd": f"./vt check {p} --tier quick",
                "thorough_cmd": f"./vt check {p} --tier thorough",
                "evidence_file": f"/verif/evidence/{p}.json",
                "replay_cmd_template": "./vt replay {path}",
                "engine": "kani-cbmc",
                "level_claimed": {"category": "model_checking", "text": c["text"], "design_ref": c["ref"]},
                "level_note": c["note"],
                "technique": TECH,
            })
    na = []
    for p in props:
        if p in NOT_APPLICABLE:
            na.append({"property_id": p, "reason": NOT_APPLICABLE[p]})
        elif not (p in have and p in CLAIMS):
            na.append({"property_id": p, "reason": PENDING})
    repo_commits = subprocess.run(["git", "-C", "/repo", "log", "--format=%h %s", "bd9e588..HEAD"], capture_output=True, text=True).stdout.strip().split("\n")
    hooks = [c.split()[0] for c in repo_commits if c.split(" ", 1)[1].startswith("verif hook")]
    m = {
        "version": 1,
        "setup_cmd": "./vt setup",
        "hooks": {
            "guard": "--cfg zcash_librustzcash_verif",
            "enable": "RUSTFLAGS='--cfg zcash_librustzcash_verif' (set by ./vt for every cargo kani invocation; the harness crates under /verif/harness depend on /repo's crates by path)",
            "baseline_off_cmd": "cd /repo && cargo nextest run --workspace --no-fail-fast --tool-config-file pb:/w/lib/nextest.toml --profile pb --test-threads 8 --offline",
            "source_commits": hooks,
            "add_only": True,
        },
        "engines": [{
            "name": "kani-cbmc", "path": "/verif/vt",
            "serves_properties": [c["property_id"] for c in checks],
            "kind_free_text": "Kani 0.68.0 harness crates (/verif/harness/*) with path dependencies on /repo, run per harness by ./vt: CBMC 6.11 bounded model checking with CaDiCaL, unwinding assertions on, cover-witness vacuity guard, concrete playback + native dev/release replay of counterexamples before a VIOLATION is printed",
        }],
        "checks": checks,
        "not_applicable": na,
        "notes": "Exit codes of every check: 0 all obligations discharged; 1 VIOLATION (counterexample reproduced natively); 2 inconclusive (timeout/OOM/unsupported construct/unwinding bound/non-reproducing counterexample) - never reported as a pass. known_findings.json lists genuine defects found (both repaired by 'fix:' commits in /repo).",
    }
    json.dump(m, open(os.path.join(ROOT, "MANIFEST.json"), "w"), indent=1)
    print("checks:", [c["property_id"] for c in checks], "n/a:", [x["property_id"] for x in na])

main()
