#!/usr/bin/env python3
"""Regenerates /verif/MANIFEST.json from the per-property texts below and the harnesses present."""
import json, os, subprocess, sys
ROOT = os.path.dirname(os.path.dirname(os.path.abspath(__file__)))
sys.path.insert(0, ROOT)

TECH = "bounded symbolic execution of the compiled Rust code (Kani 0.68 -> CBMC 6.11, CaDiCaL SAT), kani::any() inputs, unwinding assertions on"

CLAIMS = {
 "C09": dict(
   text="Every public constructor, parser, conversion and operator of Zatoshis/ZatBalance is compared by the SAT solver with exact 128-bit integer arithmetic for ALL 64-bit operands (division: all dividends, a stated set of concrete divisors). Bounded model checking is the right level: the operand space is finite and the solver covers it completely, including the MAX_MONEY+-1 lattice the unit tests touch at three points.",
   note="Trusts Kani's MIR->goto translation, CBMC, CaDiCaL. Division/remainder is decided against the definition q*d+r=a only for d in {1,2,3,7,MAX_MONEY+1,u64::MAX} and against machine division for d in {MAX_MONEY, 2^32+1}; other divisors (a symbolic divisor, 5000, 10^8 did not finish) are outside the claim. Sum impls: 3 elements.",
   ref="§5 C09"),
 "C19": dict(
   text="Parameters: for ALL (n,k) in u32^2 whatever Params::new accepts satisfies every downstream precondition (no assert!/division by zero/overflow can fire). Decoding: for all byte strings of the exact length the decoder output equals an independent big-endian bit-slicer; every other length is rejected. One step of the tree validator from ARBITRARY children (all hashes, all indices) equals the definition (collision on the segment, ordering, distinctness, xor of tails, root zero test); leaves are derived from the right hash block and byte range for every index under an arbitrary hash function. Tree = structural recursion over these steps (stated, not solved end to end).",
   note="Hash abstraction: equihash::verify::generate_hash is stubbed by an arbitrary function in the leaf/grid harnesses, so nothing is claimed about BLAKE2b output values or personalisation. Children of 1, 2 and 4 indices; k=3 decoders for index widths 9..25 bits; whole-tree runs through is_valid_solution did not get through symex and are outside the claim. Uses the cfg(zcash_librustzcash_verif) hook module equihash::verif_hooks.",
   ref="§5 C19"),
}

CLAIMS.update({
 "C03": dict(
   text="Codec layer only: the local zcash_encoding CompactSize reader/writer is decided for ALL byte strings of length 0..=9 and ALL u64 values (no panic, bytes consumed, every non-canonical prefix and over-limit value rejected, accepted input re-encodes to the consumed bytes); Vector<u8>/Optional<u8> for <=3 elements; amount encodings are decided under C09. Bounded model checking covers the complete input space of these kernels.",
   note="Outside the claim (stated in DESIGN): transaction/bundle/header structure (read_v4/v5/v6, Sapling/Orchard/Ironwood bundles need curve-point decoding), TxVersion, TxIn/TxOut/Script, BlockHeader hashing. zcash_primitives links the published zcash_encoding 0.4 from the registry, not the local 0.5 harnessed here.",
   ref="§5 C03"),
 "C07": dict(
   text="ZIP 317 fee_required equals 5000*max(2, logical actions) computed in 128-bit arithmetic for all sizes/counts in the bounds; SingleOutputChangeStrategy::compute_balance on a Sapling 1-in/1-out transaction: for ALL values, dust policies/thresholds, target and anchor heights the solver shows conservation (inputs = outputs + change + fee), fee = ZIP 317 fee of the final shape unless dust is folded in, the dust rule, and that InsufficientFunds is honest.",
   note="Bounds: 2 transparent inputs/outputs with sizes <= 2^20 and counts <= 2^40 for the formula; one pool combination (Sapling 1x1, single-output strategy, no memo, no ephemeral balance) for the balance. Other pool combinations, the multi-output strategy and the Orchard turnstile rule are thorough-tier/outside (see DESIGN).",
   ref="§5 C07"),
 "C10": dict(
   text="F4Jumble is shown to be a length-preserving bijection (inv(jumble(m)) = m and jumble(inv(m)) = m) for EVERY message of each instantiated length, with BLAKE2b abstracted by a deterministic mixing function (a Feistel network is invertible for any round function, so the solver decides the structure: split point, round order, G block index, tail xor); invalid lengths are rejected without touching the buffer.",
   note="Lengths 48 and 129 in the quick tier plus one seeded member of {63,65,128}; 193 thorough. BLAKE2b output values, the Bech32/Bech32m/Base58Check string layer, ZcashAddress parsing and the ZIP 316 container rules are outside the claim (string code is out of CBMC's reach; container harness not built).",
   ref="§5 C10"),
 "C12": dict(
   text="Narrow: memo bytes survive unchanged. MemoBytes::from_bytes (accept iff <= 512 bytes, zero padding, as_slice = content without trailing zeros) and Memo <-> MemoBytes conversion for every 512-byte array of the non-text classes and for all text memos whose content is <= 6 bytes against an independent UTF-8 validator.",
   note="The ZIP 321 URI grammar, amount<->decimal conversion, percent-encoding, index and duplicate rules (format!/nom over &str) are outside the claim: CBMC did not get through format! of a 3-digit number in 11 minutes (DESIGN §3).",
   ref="§5 C12"),
 "C15": dict(
   text="One insertion step of the scan-queue algebra is decided for ALL ranges over u32 heights, all 7x7 priorities and both force flags: the result of the leaf-level insert is a sorted, gap-free, merged partition of the hull whose priority at EVERY height equals the documented dominance rule applied pointwise; dominance() and join_nonoverlapping() likewise. One step from an arbitrary valid range makes the Rust part inductive over insertion histories.",
   note="Through the cfg(zcash_librustzcash_verif) hook spanning_tree::verif_hooks. Outside the claim: the SpanningTree recursion over >1 leaf (thorough-tier harness for 2 leaves), the scan_queue SQL (replace_queue_entries, scan_complete, update_chain_tip, suggest_scan_ranges) and termination of syncing.",
   ref="§5 C15"),
 "C16": dict(
   text="plan_denominations with caps 1 and 2 for ALL balances and buffers in [0,MAX_MONEY], symbolic note count, and an oracle that returns a fresh arbitrary answer on every call: canonical (19-entry table), non-increasing, <= cap, prefix of the canonical split, exact conservation, reserved fees = accepted answer x fee, change bound, generator never consulted. is_canonical_denomination for all Zatoshis and largest_one_two_five for all hi <= 10^12 against the table.",
   note="Preparation fee bounded by 10^6 zatoshi in the quick tier (bounds the step-down loop; checked by unwinding assertions); caps 3..64 are outside the quick claim (cap 3 thorough). Uses the verif hook for unconstrained_split.",
   ref="§5 C16"),
 "C17": dict(
   text="Every generator word is kani::any(), so 'for every random stream' is the query: delays <= cap for any logarithm value; schedules non-decreasing/saturating with canonical expiries; closed form of expiry_height for all u32; shuffles are permutations (n<=4, Lemire rejection un-stubbed); anchor draws on the ZIP 318 grid and others: Some => on grid, above activation, >= funding, below the most recent boundary, age <= 4, None iff no candidate; wake-up schedules for <=2 transfers: exact cover, windows, strict order, brute-force minimality; classification monotone over the whole evidence lattice.",
   note="Streams whose rejection loops end within the stated draw budget (2 words = 128 coin flips for anchors). libm::log stubbed by an arbitrary value in [-37,0]; the private gen_index stubbed by its contract in the wake-up harnesses only. Bucket intervals are instantiated concretely (a symbolic modulus did not finish).",
   ref="§5 C17"),
 "C18": dict(
   text="One inductive step from an ARBITRARY well-formed 2-transaction state (all lifecycle states, heights, expiries, marks, statuses symbolic): the step decision offers Broadcast only for a Proved, due, unexpired, unmarked, unreported row whose dependencies are mined, never for a terminal migration, and never withholds an eligible row; every public mutator moves rows only forward, truncate_to_height un-mines exactly the rows above the height, policy-terminal statuses are never left, Complete iff all mined.",
   note="2 transactions; the drive loop advance_migration, record_satisfiability, shift_schedule, the SQLite save/load round trip and 'one non-terminal migration per account' are outside the claim. Representation invariant (unique ids, deps refer to earlier rows, in-flight rows carry their txid) is assumed of the pre-state and asserted of the post-state.",
   ref="§5 C18"),
 "C20": dict(
   text="Node record codecs V1/V2/V3 with EVERY field symbolic (all counter values, all roots, all work values): write then read returns every field, record length exact, unrepresentable height ranges rejected. V1 combine: every field rule plus exact hash framing (write(left)||write(right) under ZcashHistory||branch id), hash abstracted.",
   note="blake2b_personal is stubbed (records its arguments, returns arbitrary bytes): nothing is claimed about BLAKE2b. Tree::append_leaf/truncate_leaf against a from-scratch MMR (harnesses c20_mmr_ops_*) did not get through symex (BTreeMap-backed store) and are NOT part of the claim unless listed as discharged in the evidence.",
   ref="§5 C20"),
})

NOT_APPLICABLE = {
 "C01": "ledger state and all its transitions are SQL executed by SQLite via FFI; symbolic execution of the Rust code cannot see them and no encodable kernel implies the property",
 "C02": "atomicity/crash consistency/snapshot isolation are provided by SQLite's transaction and journal machinery (C code behind FFI, crash points, concurrent connections): out of reach of Kani/CBMC",
 "C08": "spendability is decided by SQL predicates inside SQLite; proposal constructors render and re-parse ZIP 321 URIs (format!/nom) and notes made of curve points: not encodable",
 "C11": "every clause is a statement about ZIP 32 hashing, Jubjub/Pallas scalar multiplication and note encryption; abstracting them leaves nothing of the property",
 "C14": "Builder::build produces proofs, RedJubjub/RedPallas/ECDSA (secp256k1 C FFI) signatures and note ciphertexts; the clauses are about that crypto",
}

PENDING = "harnesses not built yet in this session (see DESIGN.md for the plan)"

def main():
    import importlib.machinery, importlib.util
    loader = importlib.machinery.SourceFileLoader("vt", os.path.join(ROOT, "vt"))
    spec = importlib.util.spec_from_loader("vt", loader); vt = importlib.util.module_from_spec(spec); loader.exec_module(vt)
    hs = vt.discover()
    props = [json.loads(l)["id"] for l in open(os.path.join(ROOT, "properties.jsonl"))]
    have = sorted({h["p"] for h in hs})
    checks = []
    for p in props:
        if p in have and p in CLAIMS:
            c = CLAIMS[p]
            crates = sorted({h["crate"] for h in hs if h["p"] == p})
            checks.append({
                "property_id": p,
                "quick_cmd": f"./vt check {p} --tier quick",
                "thorough_cmd": f"./vt check {p} --tier thorough",
                "evidence_file": f"/verif/evidence/{p}.json",
                "replay_cmd_template": "./vt replay {path}",
                "engine": "kani-cbmc",
                "level_claimed": {"category": "model_checking", "text": c["text"], "design_ref": c["ref"]},
                "level_note": c["note"],
                "technique": TECH,
            })
    na = []
    for p in props:
        if p in NOT_APPLICABLE:
            na.append({"property_id": p, "reason": NOT_APPLICABLE[p]})
        elif not (p in have and p in CLAIMS):
            na.append({"property_id": p, "reason": PENDING})
    repo_commits = subprocess.run(["git", "-C", "/repo", "log", "--format=%h %s", "bd9e588..HEAD"], capture_output=True, text=True).stdout.strip().split("\n")
    hooks = [c.split()[0] for c in repo_commits if c.split(" ", 1)[1].startswith("verif hook")]
    m = {
        "version": 1,
        "setup_cmd": "./vt setup",
        "hooks": {
            "guard": "--cfg zcash_librustzcash_verif",
            "enable": "RUSTFLAGS='--cfg zcash_librustzcash_verif' (set by ./vt for every cargo kani invocation; the harness crates under /verif/harness depend on /repo's crates by path)",
            "baseline_off_cmd": "cd /repo && cargo nextest run --workspace --no-fail-fast --tool-config-file pb:/w/lib/nextest.toml --profile pb --test-threads 8 --offline",
            "source_commits": hooks,
            "add_only": True,
        },
        "engines": [{
            "name": "kani-cbmc", "path": "/verif/vt",
            "serves_properties": [c["property_id"] for c in checks],
            "kind_free_text": "Kani 0.68.0 harness crates (/verif/harness/*) with path dependencies on /repo, run per harness by ./vt: CBMC 6.11 bounded model checking with CaDiCaL, unwinding assertions on, cover-witness vacuity guard, concrete playback + native dev/release replay of counterexamples before a VIOLATION is printed",
        }],
        "checks": checks,
        "not_applicable": na,
        "notes": "Exit codes of every check: 0 all obligations discharged; 1 VIOLATION (counterexample reproduced natively); 2 inconclusive (timeout/OOM/unsupported construct/unwinding bound/non-reproducing counterexample) - never reported as a pass. known_findings.json lists genuine defects found (both repaired by 'fix:' commits in /repo).",
    }
    json.dump(m, open(os.path.join(ROOT, "MANIFEST.json"), "w"), indent=1)
    print("checks:", [c["property_id"] for c in checks], "n/a:", [x["property_id"] for x in na])

main()
