#!/usr/bin/env python3
"""Regenerates /verif/MANIFEST.json from the per-property texts below and the harnesses present."""
import json, os, subprocess, sys
ROOT = os.path.dirname(os.path.dirname(os.path.abspath(__file__)))
sys.path.insert(0, ROOT)

TECH = "bounded symbolic execution of the compiled Rust code (Kani 0.68 -> CBMC 6.11, CaDiCaL SAT), kani::any() inputs, unwinding assertions on"

CLAIMS = {
 "C09": dict(
   text="Every public constructor, parser, conversion and operator of Zatoshis/ZatBalance is compared by the SAT solver with exact 128-bit integer arithmetic for ALL 64-bit operands (division: all dividends, a stated set of concrete divisors). Bounded model checking is the right level: the operand space is finite and the solver covers it completely, including the MAX_MONEY+-1 lattice the unit tests touch at three points.",
   note="Trusts Kani's MIR->goto translation, CBMC, CaDiCaL. Division/remainder is decided against the definition q*d+r=a only for d in {1,2,3,7,MAX_MONEY+1,u64::MAX} and against machine division for d in {MAX_MONEY, 2^32+1}; other divisors (a symbolic divisor, 5000, 10^8 did not finish) are outside the claim. Sum impls: 3 elements.",
   ref="§5 C09"),
 "C19": dict(
   text="Parameters: for ALL (n,k) in u32^2 whatever Params::new accepts satisfies every downstream precondition (no assert!/division by zero/overflow can fire). Decoding: for all byte strings of the exact length the decoder output equals an independent big-endian bit-slicer; every other length is rejected. One step of the tree validator from ARBITRARY children (all hashes, all indices) equals the definition (collision on the segment, ordering, distinctness, xor of tails, root zero test); leaves are derived from the right hash block and byte range for every index under an arbitrary hash function; the root test on a 1-leaf tree checks the whole last segment; solutions one byte shorter/longer than required are rejected for the parameter sets in use. Larger trees = structural recursion over these steps (stated, not solved end to end).",
   note="Hash abstraction: equihash::verify::generate_hash is stubbed by an arbitrary function in the leaf/grid harnesses, so nothing is claimed about BLAKE2b output values or personalisation. Children of 1, 2 and 4 indices; k=3 decoders for index widths 9..25 bits; whole-tree runs through is_valid_solution did not get through symex and are outside the claim. Uses the cfg(zcash_librustzcash_verif) hook module equihash::verif_hooks.",
   ref="§5 C19"),
}

CLAIMS.update({
 "C03": dict(
   text="Codec kernels with COMPLETE input spaces: the local zcash_encoding CompactSize reader/writer for ALL byte strings of length 0..=9 and ALL u64 values (no panic, bytes consumed, every non-canonical prefix and over-limit value rejected, accepted input re-encodes to the consumed bytes); Optional; TxVersion::read/write for ALL byte strings of length 0..=8 against an independently written accept set (non-overwintered >= 1, the four version/group-id pairs), canonical re-serialisation, and which sections (Sprout/Sapling/Orchard/Ironwood) each accepted version carries; OutPoint for all strings of length 0..=37; TxOut::read for ALL 8-byte amount fields (Ok iff 0..=MAX_MONEY, never a panic, write reproduces the bytes; empty script). Amount encodings are decided under C09.",
   note="Outside the claim (stated in DESIGN): transaction/bundle structure (read_v4/v5/v6; Sapling/Orchard/Ironwood bundles need curve-point decoding), TxIn and non-empty Script (Vec-producing readers did not get through symex), BlockHeader hashing, txid/auth-commitment equality after a round trip. zcash_primitives links the published zcash_encoding 0.4 from the registry, not the local 0.5 harnessed here.",
   ref="§5 C03"),
 "C07": dict(
   text="ZIP 317 fee_required equals 5000*max(2, logical actions) computed in 128-bit arithmetic for ALL usize sizes and counts (Ok iff representable, else Err(Overflow); never a panic or a wrapped fee - this found and fixed a defect); SingleOutputChangeStrategy::compute_balance on a Sapling 1-in/1-out transaction: for ALL values, dust policies/thresholds, target and anchor heights the solver shows conservation (inputs = outputs + change + fee), fee = ZIP 317 fee of the final shape unless dust is folded in, the dust rule, and that InsufficientFunds is honest; the same shape WITH a change memo (a change output is always present; dust folded into the fee leaves a zero-valued change output and fee - 10000 = the folded dust).",
   note="Bounds: 2 transparent inputs and 2 outputs for the formula (quick: sizes <= 2^20, counts <= 2^40, plus all usize counts without a transparent part and all overflowing size totals; thorough: everything unbounded at once); one pool combination (Sapling 1x1, single-output strategy, with and without a change memo, no ephemeral balance) for the balance. The fully transparent 1-in/2-out shape with transparent change exhausted 34 GB and is kept as experimental; other pool combinations, the multi-output strategy and the Orchard turnstile rule are outside (see DESIGN).",
   ref="§5 C07"),
 "C10": dict(
   text="F4Jumble is shown to be a length-preserving bijection (inv(jumble(m)) = m and jumble(inv(m)) = m) for EVERY message of each instantiated length, with BLAKE2b abstracted by a deterministic mixing function (a Feistel network is invertible for any round function, so the solver decides the structure: split point, round order, G block index, tail xor); invalid lengths are rejected without touching the buffer. ZIP 316 container rules through the public API: a unified address of 0, 1 or 2 receivers is accepted iff typecodes are distinct, not P2PKH+P2SH, not only transparent (error kinds exact, items stored in ascending order); typecode mapping for all u32; per-item rules of Receiver/Fvk/Ivk for ALL u32 typecodes at the item lengths 20/43/64/65 (96/128 thorough); the container byte layer (hook): one Sapling item + 16 padding bytes is accepted iff the padding is exactly HRP||zeros.",
   note="F4Jumble lengths: 48 quick (inv(jumble(m)) = m; the converse, implied on a finite domain, is thorough); 63 and 65 thorough; 128, 129 and 193 did not finish (experimental). In the padding harness F4Jumble^-1 is replaced by the identity (its bijectivity is the other harness) and format! by an empty string. BLAKE2b output values, the Bech32/Bech32m/Base58Check string layer (HRP <-> network mapping, checksums, case), ZcashAddress parsing/encoding, containers of more than 2 items and symbolic item framing are outside the claim (string code and symbolic-length Vecs are out of CBMC's reach here). Uses the verif hook zcash_address::verif_hooks.",
   ref="§5 C10"),
 "C12": dict(
   text="Narrow: memo bytes survive unchanged. MemoBytes::from_bytes for ALL inputs of length 512, 20 and 0 (stored array = input followed by zeros; as_slice = content without trailing zeros) and 513 (TooLong); encoding of the non-text Memo classes (Empty, Arbitrary, Future) reproduces the bytes. Two kernels of the URI grammar through a hook: parse::indexed_name equals a byte-level reference of paramname[.paramindex] (no leading zero, at most four digits, exact sub-slices) for ALL ASCII strings of length 3 and 7 (5 and 9 thorough); parse::has_duplicate_param is true exactly when an earlier parameter has the same kind, unknown parameters being compared by NAME only (2 earlier parameters, symbolic kinds/names/values).",
   note="from_uri/to_uri end to end, amount<->decimal conversion (format! with padding, str::parse), percent-encoding, Payment::new and address parameters are outside the claim: CBMC did not get through format! of a 3-digit number in 11 minutes (DESIGN §3). In the grammar harness <char as Pattern>::is_contained_in is stubbed by the equivalent byte loop for ASCII haystacks. Uses the verif hook zip321::verif_hooks.",
   ref="§5 C12"),
 "C13": dict(
   text="Merge algebra of the PCZT Global record: Global::merge equals, for ALL pairs of field values and all 256 flag bytes, the documented rule (same transaction required, bits 0/1/7 merge towards false, bit 2 towards true, reserved bits 3-6 rejected), is commutative and idempotent on valid records; associativity follows from the solver-checked associativity of that reference. transparent::Bundle::merge list-length rule on output lists (2 vs 1 quick; 1 vs 2 and 0 vs 2 thorough): refused iff it would add outputs to a copy whose outputs are not modifiable or the common prefix differs; the result has exactly max(n_a,n_b) outputs, the tail moved over once. merge_optional (the helper every optional PCZT field is merged with) for all Option<u32> triples: fails iff both present and different, keeps whatever either side carried, commutative/idempotent/associative.",
   note="Through the cfg(zcash_librustzcash_verif) hook pczt::verif_hooks; proprietary maps empty. In the list-length harnesses roles::combiner::merge_map is stubbed for two EMPTY maps (asserted empty). Outside the claim: merge_map on non-empty maps, field-level merges of transparent inputs/outputs, the Sapling/Orchard record merges (BTreeMap-heavy harnesses did not finish and are kept as experimental), serde/postcard encodings and version selection, and every role that needs cryptography (signer, prover, extractor, pczt_txid).",
   ref="§5 C13"),
 "C15": dict(
   text="One insertion step of the scan-queue algebra is decided for ALL ranges over u32 heights, all 7x7 priorities and both force flags: the result of the leaf-level insert is a sorted, gap-free, merged partition of the hull whose priority at EVERY height equals the documented dominance rule applied pointwise; dominance() and join_nonoverlapping() likewise. One step from an arbitrary valid range makes the Rust part inductive over insertion histories.",
   note="Through the cfg(zcash_librustzcash_verif) hook spanning_tree::verif_hooks. Outside the claim: the SpanningTree recursion over >1 leaf (no 2-leaf harness left symex; kept as experimental), the scan_queue SQL (replace_queue_entries, scan_complete, update_chain_tip, suggest_scan_ranges) and termination of syncing.",
   ref="§5 C15"),
 "C16": dict(
   text="is_canonical_denomination for all Zatoshis and largest_one_two_five for all hi <= 10^12 against the 19-entry table. unconstrained_split (cap 1) for ALL balances and buffers: canonical, non-increasing, <= cap, exact single-note funding, optimistic cost fits, greedy first value, remainder bound. plan() over ANY canonical split of length 0 or 1 with an oracle returning a fresh arbitrary answer on every call: truncation of the split, exact conservation, reserved fees = accepted answer x fee, generator never consulted. Over-charging oracle (any usize answer) on the real planner: no panic, no wrap.",
   note="Assume-guarantee: plan() is decided with unconstrained_split stubbed by a superset of its behaviours (one stub per concrete length; a symbolic-length Vec exhausted 30 GB). Preparation fee bounded by 10^6 zatoshi (bounds the step-down loop; checked by unwinding assertions); caps 2..64 (cap 2 exhausted 26 GB) and splits longer than 1 inside plan() outside the claim. Uses the verif hook for unconstrained_split.",
   ref="§5 C16"),
 "C17": dict(
   text="Every generator word is kani::any(), so 'for every random stream' is the query: delays <= cap for any logarithm value; schedules non-decreasing/saturating with canonical expiries; closed form of expiry_height for all u32; shuffles are permutations (n<=4, Lemire rejection un-stubbed); anchor draws on the ZIP 318 grid and others: Some => on grid, above activation, >= funding, below the most recent boundary, age <= 4, None iff no candidate; classification monotone over the whole evidence lattice. The wake-up schedule clause is NOT decided (harness did not finish).",
   note="Streams whose rejection loops end within the stated draw budget (2 words = 128 coin flips for anchors). libm::log stubbed by an arbitrary value in [-37,0]; Bucket intervals are instantiated concretely (a symbolic modulus did not finish).",
   ref="§5 C17"),
 "C18": dict(
   text="One inductive step from an ARBITRARY well-formed 2-transaction state (all lifecycle states, heights, expiries, marks, statuses symbolic): next_broadcastable offers only a Proved, due, unexpired, unreported row outside the dead set whose dependencies are mined, picks the earliest scheduled, never withholds an eligible row (for each of the four possible dead sets; dependency lists may name a row that does not exist, which must block); next_step offers Broadcast exactly when the migration is live and next_broadcastable found a row; every public mutator moves rows only forward, truncate_to_height un-mines exactly the rows above the height, policy-terminal statuses are never left, Complete iff all mined.",
   note="2 transactions. Not decided: that the real dead_set computes the documented set (it is an input / stubbed), the non-broadcast steps (helpers stubbed in the priority harness), the drive loop advance_migration, record_satisfiability, shift_schedule, the SQLite save/load round trip and 'one non-terminal migration per account'. Representation invariant (unique ids, deps refer to earlier rows, in-flight rows carry their txid) is assumed of the pre-state and asserted of the post-state. Uses the verif hooks next_step / next_broadcastable.",
   ref="§5 C18"),
 "C20": dict(
   text="Node record codecs V1/V2/V3 decided in two halves against one independent layout description, with EVERY field symbolic (all u64 counter values incl. beyond the compact-size bound, all roots, all work values): write emits exactly the layout byte for byte with the exact length; read of an arbitrary buffer returns exactly the fields the layout places there, Ok iff counters canonical and the height range representable. V1 combine: every field rule, personalisation ZcashHistory||branch id, and record(left) then record(right) hashed once each. Entry::leaf_count / complete arithmetic for all records; Entry::read/write framing (tag, stored links, record) for ALL buffers of length 0..=33 with a structural Version.",
   note="blake2b_personal is stubbed (records its arguments, returns arbitrary bytes) and, in the combine harness only, NodeData::write is replaced by a 4-byte identifying marker (its real output is the write-layout harness): nothing is claimed about BLAKE2b. Tree::append_leaf/truncate_leaf against a from-scratch MMR did not get through symex (BTreeMap-backed store) and are NOT part of the claim (harnesses kept as experimental).",
   ref="§5 C20"),
})

NOT_APPLICABLE = {
 "C04": "txid/sighash commit-to-everything is injectivity of a BLAKE2b digest tree; with BLAKE2b abstracted only the dependency set of each digest would remain, and the digest code (blake2b_simd::State with private guts, Vec-built preimages over whole bundles) did not fit the memory budget measured for much smaller buffers (DESIGN section 3); no harness decides any clause, so nothing is claimed",
 "C05": "scan_block cannot be compiled by Kani 0.68: kani-compiler panics (internal compiler error in codegen of an intrinsic, kani-compiler intrinsics.rs:243) on code reachable from scan_block even with an empty key set; the continuity kernels (check_hash_continuity, tree_sizes_around) are nested private functions no add-only hook can expose. A candidate defect found by reading is described in DESIGN section 7 but is not decided by any check",
 "C06": "note-commitment-tree roots and checkpoints live in shardtree (external crate) over SQLite tables reached through rusqlite FFI; the only encodable kernels (checkpoint-height planning) do not imply any clause of the property, so nothing is claimed",
 "C01": "ledger state and all its transitions are SQL executed by SQLite via FFI; symbolic execution of the Rust code cannot see them and no encodable kernel implies the property",
 "C02": "atomicity/crash consistency/snapshot isolation are provided by SQLite's transaction and journal machinery (C code behind FFI, crash points, concurrent connections): out of reach of Kani/CBMC",
 "C08": "spendability is decided by SQL predicates inside SQLite; proposal constructors render and re-parse ZIP 321 URIs (format!/nom) and notes made of curve points: not encodable",
 "C11": "every clause is a statement about ZIP 32 hashing, Jubjub/Pallas scalar multiplication and note encryption; abstracting them leaves nothing of the property",
 "C14": "Builder::build produces proofs, RedJubjub/RedPallas/ECDSA (secp256k1 C FFI) signatures and note ciphertexts; the clauses are about that crypto",
}

PENDING = "harnesses not built yet in this session (see DESIGN.md for the plan)"

def main():
    import importlib.machinery, importlib.util
    loader = importlib.machinery.SourceFileLoader("vt", os.path.join(ROOT, "vt"))
    spec = importlib.util.spec_from_loader("vt", loader); vt = importlib.util.module_from_spec(spec); loader.exec_module(vt)
    hs = vt.discover()
    props = [json.loads(l)["id"] for l in open(os.path.join(ROOT, "properties.jsonl"))]
    have = sorted({h["p"] for h in hs})
    checks = []
    for p in props:
        if p in have and p in CLAIMS:
            c = CLAIMS[p]
            crates = sorted({h["crate"] for h in hs if h["p"] == p})
            checks.append({
                "property_id": p,
                "quick_cmd": f"./vt check {p} --tier quick",
                "thorough_cmd": f"./vt check {p} --tier thorough",
                "evidence_file": f"/verif/evidence/{p}.json",
                "replay_cmd_template": "./vt replay {path}",
                "engine": "kani-cbmc",
                "level_claimed": {"category": "model_checking", "text": c["text"], "design_ref": c["ref"]},
                "level_note": c["note"],
                "technique": TECH,
            })
    na = []
    for p in props:
        if p in NOT_APPLICABLE:
            na.append({"property_id": p, "reason": NOT_APPLICABLE[p]})
        elif not (p in have and p in CLAIMS):
            na.append({"property_id": p, "reason": PENDING})
    repo_commits = subprocess.run(["git", "-C", "/repo", "log", "--format=%h %s", "bd9e588..HEAD"], capture_output=True, text=True).stdout.strip().split("\n")
    hooks = [c.split()[0] for c in repo_commits if c.split(" ", 1)[1].startswith("verif hook")]
    m = {
        "version": 1,
        "setup_cmd": "./vt setup",
        "hooks": {
            "guard": "--cfg zcash_librustzcash_verif",
            "enable": "RUSTFLAGS='--cfg zcash_librustzcash_verif' (set by ./vt for every cargo kani invocation; the harness crates under /verif/harness depend on /repo's crates by path)",
            "baseline_off_cmd": "cd /repo && cargo nextest run --workspace --no-fail-fast --tool-config-file pb:/w/lib/nextest.toml --profile pb --test-threads 8 --offline",
            "source_commits": hooks,
            "add_only": True,
        },
        "engines": [{
            "name": "kani-cbmc", "path": "/verif/vt",
            "serves_properties": [c["property_id"] for c in checks],
            "kind_free_text": "Kani 0.68.0 harness crates (/verif/harness/*) with path dependencies on /repo, run per harness by ./vt: CBMC 6.11 bounded model checking with CaDiCaL, unwinding assertions on, cover-witness vacuity guard, concrete playback + native dev/release replay of counterexamples before a VIOLATION is printed",
        }],
        "checks": checks,
        "not_applicable": na,
        "notes": "Exit codes of every check: 0 all obligations discharged; 1 VIOLATION (counterexample reproduced natively in dev and release semantics; for harnesses that replace a function of /repo by a stub the solver's counterexample is reported at model level, see DESIGN section 2); 2 inconclusive (timeout/OOM/unsupported construct/unwinding bound/non-reproducing counterexample) - never reported as a pass. known_findings.json lists the genuine defects found (all four repaired by 'fix:' commits in /repo).",
    }
    json.dump(m, open(os.path.join(ROOT, "MANIFEST.json"), "w"), indent=1)
    print("checks:", [c["property_id"] for c in checks], "n/a:", [x["property_id"] for x in na])

main()
