#!/bin/bash
# usage: run_seeded.sh <worktree> <id>...   applies each seeded patch in the scratch worktree and runs
# the property's quick check against it (VT_REPO), recording exit code and VIOLATION lines.
WT=$1; shift
for id in "$@"; do
  prop=${id%%-*}
  git -C $WT checkout -q -- . ; git -C $WT apply /verif/seeded/$id/patch.diff || { echo "$id: patch does not apply"; continue; }
  out=/verif/seeded/$id/check_output.txt
  ( cd /verif && VT_REPO=$WT VT_NS=${MUT_NS:-mut} VT_MEM_GB=${VT_MEM_GB:-14} timeout 7200 ./vt check $prop -j ${JOBS:-4} ) > $out 2>&1
  rc=$?
  echo "exit=$rc" >> $out
  echo "$id exit=$rc $(grep -c '^VIOLATION' $out) violation line(s): $(grep -A1 '^VIOLATION' $out | grep harness= | sed 's/.*harness=//' | cut -c1-120 | tr '\n' ';')"
  git -C $WT checkout -q -- .
done
