#!/usr/bin/env python3
"""Prints the markdown table of DESIGN.md section 9 from seeded/*/meta.json and check_output.txt."""
import json, os, re, glob
ROOT = os.path.dirname(os.path.dirname(os.path.abspath(__file__)))
WHY_MISSED = {
 "C09-m3": "needs a sum of 8785 terms; `Sum` impls are decided for 3 elements",
 "C17-m2": "lives in `schedule_sync_wakeups`, which is outside the claim (harness did not finish)",
 "C07-m2": "needs the fully transparent 1-in/2-out shape with transparent change; that harness runs out of memory (experimental)",
 "C18-m3": "changes the real `dead_set` closure; the guard harnesses take the dead set as an input (3-row chain harness did not finish)",
 "C20-m2": "`Tree::new` peak bagging: tree operations are outside the claim (BTreeMap-backed store)",
 "C20-m3": "`Tree` push/pop bookkeeping: tree operations are outside the claim",
 "C10-m4": "HRP -> network mapping in the Bech32 string layer, outside the claim",
 "C13-m2": "transparent bundle merge with unequal input/output counts: bundle merges are outside the claim",
 "C13-m3": "Sapling bundle merge: outside the claim",
 "C15-m2": "multi-leaf tree recursion: outside the claim (no 2-leaf harness left symex)",
 "C15-m3": "`update_chain_tip` is SQL over the scan queue table: outside the claim",
}
rows = []
for d in sorted(glob.glob(os.path.join(ROOT, "seeded", "C*-m*"))):
    sid = os.path.basename(d)
    meta = json.load(open(os.path.join(d, "meta.json")))
    summ = re.split(r"(?<=[a-z\)])[.;:] ", meta.get("summary", ""))[0][:170]
    co = os.path.join(d, "check_output.txt")
    res, by = "not run", ""
    if os.path.exists(co):
        txt = open(co).read()
        m = re.search(r"exit=(\d+)\s*$", txt)
        rc = int(m.group(1)) if m else None
        hs = sorted(set(re.findall(r"^VIOLATION .*?replay=\S*/(\w+)/?\s*$", txt, re.M)))
        if not hs:
            hs = sorted(set(h.split("::")[-1] for h in re.findall(r"harness=(\S+)", "\n".join(l for l in txt.split("\n") if "VIOLATION" in l or l.startswith("  harness=")))))
        if rc == 1:
            res, by = "**caught**", ", ".join("`%s`" % h for h in hs)
        elif rc == 0:
            res, by = "missed", WHY_MISSED.get(sid, "")
            ct = os.path.join(d, "check_output_thorough.txt")
            if os.path.exists(ct):
                t2 = open(ct).read()
                if re.search(r"exit=2\s*$", t2):
                    res, by = "missed by quick; thorough check: inconclusive (exit 2)", "the change makes `c13_transparent_outputs_1_2` trip its unwinding assertion (it moves two outputs where the bound derived from the code allows one): not a pass, not reported as a violation"
                if re.search(r"exit=1\s*$", t2):
                    hs2 = sorted(set(h.split("::")[-1] for h in re.findall(r"harness=(\S+)", "\n".join(l for l in t2.split("\n") if l.startswith("  harness=") or "VIOLATION" in l))))
                    res, by = "missed by quick, **caught by the thorough check**", ", ".join("`%s`" % h for h in hs2)
        else:
            res, by = "inconclusive (exit %s)" % rc, ""
    ok = meta.get("validated", {}).get("ok")
    rows.append((sid, summ.replace("|", "/"), res, by, "yes" if ok else "NO"))
print("| id | change (first sentence of the author's summary) | confirmed | result of the quick check | by / why missed |")
print("|----|------|------|------|------|")
for sid, summ, res, by, ok in rows:
    print(f"| {sid} | {summ} | {ok} | {res} | {by} |")
c = sum(1 for r in rows if "caught" in r[2]); m = sum(1 for r in rows if r[2].startswith("missed") and "caught" not in r[2])
print(f"\n{len(rows)} changes, {c} caught, {m} missed, {len(rows)-c-m} not decided.")
