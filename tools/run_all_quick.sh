#!/bin/bash
# runs every registered quick check once, sequentially, and prints one summary line per property
cd /verif
for p in $(python3 -c "import json;print(' '.join(c['property_id'] for c in json.load(open('MANIFEST.json'))['checks']))"); do
  t0=$(date +%s)
  ./vt check $p --tier ${TIER:-quick} -j ${JOBS:-4} > logs/check_$p.txt 2>&1
  rc=$?
  echo "$p exit=$rc wall=$(( $(date +%s) - t0 ))s $(tail -n 40 logs/check_$p.txt | grep -a "^$p \[" )"
done
