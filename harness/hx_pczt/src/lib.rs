//! Kani harnesses over pczt (C13, merge algebra). See hx_light/src/lib.rs for the `//@` format.
#![allow(dead_code, unused_imports, clippy::all)]

#[cfg(kani)]
mod c13_merge;
