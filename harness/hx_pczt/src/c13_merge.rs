//! C13 (partial) — combining partial transactions is independent of order and grouping,
//! idempotent, keeps every field any input carried and fails when two inputs conflict.
//! Decided for the `Global` record, the transparent bundle (one input / one output) and the two
//! generic helpers every other record is merged with.
use pczt::common::Global;
use pczt::verif_hooks as hk;
use std::collections::BTreeMap;

#[derive(Clone, Copy)]
struct G {
    ver: u32,
    vg: u32,
    br: u32,
    lock: Option<u32>,
    exp: u32,
    coin: u32,
    flags: u8,
}
fn any_g() -> G {
    G {
        ver: kani::any(),
        vg: kani::any(),
        br: kani::any(),
        lock: if kani::any() { Some(kani::any()) } else { None },
        exp: kani::any(),
        coin: kani::any(),
        flags: kani::any(),
    }
}
fn mk(g: &G) -> Global {
    hk::global(g.ver, g.vg, g.br, g.lock, g.exp, g.coin, g.flags, BTreeMap::new())
}
fn same_tx(a: &G, b: &G) -> bool {
    a.ver == b.ver && a.vg == b.vg && a.br == b.br && a.lock == b.lock && a.exp == b.exp && a.coin == b.coin
}
/// The documented per-bit rule: bits 0, 1, 7 merge towards false (AND), bit 2 towards true (OR),
/// bits 3-6 must be zero.
fn flags_rule(a: u8, b: u8) -> Option<u8> {
    if (a | b) & 0b0111_1000 != 0 {
        None
    } else {
        Some((a & b & 0b1000_0011) | ((a | b) & 0b0000_0100))
    }
}
fn parts(g: &Option<Global>) -> Option<(u32, u32, u32, Option<u32>, u32, u32, u8)> {
    g.as_ref().map(hk::global_parts)
}

//@ {"p":"C13","tier":"quick","clause":"Global::merge: succeeds iff the two records describe the same transaction (all effecting fields equal) and neither has a reserved tx_modifiable bit; the result keeps the effecting fields and merges tx_modifiable per the documented per-bit rule (bits 0,1,7 towards false, bit 2 towards true, bits 3-6 must be zero); merge is commutative and idempotent on valid records","bounds":"all field values (u32s, Option<u32>, all 256 flag bytes) for two records; proprietary maps empty","covers":2,"t":1200,"unwindset":{"collections::btree.*":2}}
#[kani::proof]
#[kani::unwind(4)]
fn c13_global_merge_rule() {
    let (a, b) = (any_g(), any_g());
    let ab = hk::merge_global(mk(&a), mk(&b));
    let want = if same_tx(&a, &b) { flags_rule(a.flags, b.flags) } else { None };
    match (&ab, want) {
        (Some(g), Some(f)) => {
            assert!(hk::global_parts(g) == (a.ver, a.vg, a.br, a.lock, a.exp, a.coin, f));
            // the public accessors agree with the bits
            assert!(g.inputs_modifiable() == (f & 1 != 0) && g.outputs_modifiable() == (f & 2 != 0));
            assert!(g.has_sighash_single() == (f & 4 != 0) && g.shielded_modifiable() == (f & 0x80 != 0));
        }
        (None, None) => {}
        _ => assert!(false, "merge success does not match the documented rule"),
    }
    let pab = parts(&ab);
    core::mem::forget(ab);
    // order independent
    let ba = hk::merge_global(mk(&b), mk(&a));
    assert!(pab == parts(&ba));
    core::mem::forget(ba);
    // idempotent on valid records
    let aa = hk::merge_global(mk(&a), mk(&a));
    if a.flags & 0b0111_1000 == 0 {
        assert!(parts(&aa) == Some((a.ver, a.vg, a.br, a.lock, a.exp, a.coin, a.flags)));
    } else {
        assert!(aa.is_none());
    }
    core::mem::forget(aa);
    kani::cover!(pab.is_some() && a.flags != b.flags);
    kani::cover!(pab.is_none() && same_tx(&a, &b));
}

/// The complete reference for Global::merge on records with empty proprietary maps, as decided
/// equal to the real function for ALL pairs by c13_global_merge_rule.
fn ref_merge(a: &G, b: &G) -> Option<G> {
    if !same_tx(a, b) {
        return None;
    }
    flags_rule(a.flags, b.flags).map(|f| G { flags: f, ..*a })
}
fn g_eq(a: &Option<G>, b: &Option<G>) -> bool {
    match (a, b) {
        (None, None) => true,
        (Some(x), Some(y)) => same_tx(x, y) && x.flags == y.flags,
        _ => false,
    }
}

//@ {"p":"C13","tier":"quick","clause":"Global::merge is independent of grouping: the reference function that c13_global_merge_rule shows EQUAL to Global::merge for all pairs is associative over all triples (a direct harness with four real merges ran out of memory; the two obligations together give associativity of the real function)","bounds":"all field values for three records","assume":"encodes no function of the repository: a lemma about the reference used by c13_global_merge_rule","covers":1,"t":600}
#[kani::proof]
fn c13_global_merge_assoc() {
    let (a, b, c) = (any_g(), any_g(), any_g());
    let ab_c = ref_merge(&a, &b).and_then(|x| ref_merge(&x, &c));
    let a_bc = ref_merge(&b, &c).and_then(|x| ref_merge(&a, &x));
    assert!(g_eq(&ab_c, &a_bc));
    kani::cover!(ab_c.is_some() && a.flags != c.flags && b.flags != c.flags);
}

fn opt_u32() -> Option<u32> {
    if kani::any() {
        Some(kani::any())
    } else {
        None
    }
}

//@ {"p":"C13","tier":"quick","clause":"merge_optional (the helper every optional PCZT field is merged with): fails iff both sides are present and different; otherwise the result is whichever side is present (every field any input carried is kept); commutative, idempotent, associative","bounds":"all Option<u32> triples","covers":2,"t":600}
#[kani::proof]
fn c13_merge_optional_algebra() {
    let (a, b, c) = (opt_u32(), opt_u32(), opt_u32());
    let m = |x: Option<u32>, y: Option<u32>| -> Option<Option<u32>> {
        let mut l = x;
        if hk::merge_optional_u32(&mut l, y) {
            Some(l)
        } else {
            None
        }
    };
    let ab = m(a, b);
    let conflict = matches!((a, b), (Some(x), Some(y)) if x != y);
    assert!(ab.is_none() == conflict);
    if let Some(r) = ab {
        assert!(r == a.or(b));
        if a.is_some() {
            assert!(r == a);
        }
        if b.is_some() {
            assert!(r == b);
        }
    }
    assert!(ab == m(b, a));
    assert!(m(a, a) == Some(a));
    let ab_c = ab.and_then(|r| m(r, c));
    let a_bc = m(b, c).and_then(|r| m(a, r));
    assert!(ab_c == a_bc);
    kani::cover!(conflict);
    kani::cover!(ab_c.is_some() && a.is_none() && b.is_none() && c.is_some());
}

//@ {"p":"C13","tier":"experimental","clause":"(did not finish in 900 s: BTreeMap with symbolic keys) merge_map (the helper every PCZT map field is merged with): fails iff some key is present on both sides with different values; otherwise the result is the union and keeps every entry either side carried; commutative","bounds":"maps over u8 keys/values with at most 2 entries per side, symbolic keys and values","covers":2,"t":900,"unwindset":{"first_leaf_edge.0":2,"deallocating_next.0":2,"deallocating_end.0":2,"search_tree.0":2}}
#[kani::proof]
#[kani::unwind(6)]
fn c13_merge_map_algebra() {
    let (k1, v1, k2, v2, k3, v3): (u8, u8, u8, u8, u8, u8) =
        (kani::any(), kani::any(), kani::any(), kani::any(), kani::any(), kani::any());
    kani::assume(k1 != k2);
    let n_l: u8 = kani::any();
    kani::assume(n_l <= 2);
    let mk_l = || {
        let mut m = BTreeMap::new();
        if n_l >= 1 {
            m.insert(k1, v1);
        }
        if n_l >= 2 {
            m.insert(k2, v2);
        }
        m
    };
    let mk_r = || {
        let mut m = BTreeMap::new();
        m.insert(k3, v3);
        m
    };
    let mut l = mk_l();
    let ok = hk::merge_map_u8(&mut l, mk_r());
    let conflict = (n_l >= 1 && k3 == k1 && v3 != v1) || (n_l >= 2 && k3 == k2 && v3 != v2);
    assert!(ok == !conflict);
    if ok {
        assert!(l.get(&k3) == Some(&v3));
        if n_l >= 1 {
            assert!(l.get(&k1) == Some(&v1));
        }
        if n_l >= 2 {
            assert!(l.get(&k2) == Some(&v2));
        }
        let fresh = !(n_l >= 1 && k3 == k1) && !(n_l >= 2 && k3 == k2);
        assert!(l.len() == n_l as usize + fresh as usize);
    }
    let mut r = mk_r();
    let ok2 = hk::merge_map_u8(&mut r, mk_l());
    assert!(ok2 == ok);
    if ok {
        assert!(r.len() == l.len() && r.get(&k3) == l.get(&k3) && r.get(&k1) == l.get(&k1) && r.get(&k2) == l.get(&k2));
    }
    kani::cover!(conflict);
    kani::cover!(ok && l.len() == 3);
    core::mem::forget((l, r));
}

fn opt_bytes(tag: u8) -> Option<Vec<u8>> {
    if kani::any() {
        let b: u8 = kani::any();
        Some(vec![tag, b])
    } else {
        None
    }
}

//@ {"p":"C13","tier":"experimental","clause":"(did not finish in 1800 s: seven BTreeMaps per input) transparent bundle merge, one input and one output per side describing the same transaction: succeeds iff no optional field conflicts; every optional field (sequence, both required lock times, script_sig, redeem scripts, user address) present on either side is present and equal in the result; different effecting fields (prevout, value, script_pubkey, sighash type) fail; the outcome is independent of the order","bounds":"1 input + 1 output per bundle; Option presence bits and u32 values symbolic; byte-vector fields 2 bytes; maps empty; both globals non-modifiable","covers":3,"t":1800,"unwindset":{"collections::btree.*":2}}
#[kani::proof]
#[kani::unwind(6)]
fn c13_transparent_merge() {
    let g = hk::global(5, 0x26A7270A, 0xC8E71055, None, 0, 133, 0, BTreeMap::new());
    let txid: [u8; 32] = [7; 32];
    let (idx_a, idx_b): (u32, u32) = (kani::any(), kani::any());
    let (val_a, val_b): (u64, u64) = (kani::any(), kani::any());
    let (sh_a, sh_b): (u8, u8) = (kani::any(), kani::any());
    let (seq_a, seq_b) = (opt_u32(), opt_u32());
    let (tl_a, tl_b) = (opt_u32(), opt_u32());
    let (hl_a, hl_b) = (opt_u32(), opt_u32());
    let (ss_a, ss_b) = (opt_bytes(1), opt_bytes(1));
    let (rs_a, rs_b) = (opt_bytes(2), opt_bytes(2));
    let (ors_a, ors_b) = (opt_bytes(3), opt_bytes(3));
    let mk_a = || {
        hk::transparent_bundle(
            vec![hk::transparent_input(txid, idx_a, seq_a, tl_a, hl_a, ss_a.clone(), val_a, vec![0x51], rs_a.clone(), sh_a)],
            vec![hk::transparent_output(9, vec![0x52], ors_a.clone(), None)],
        )
    };
    let mk_b = || {
        hk::transparent_bundle(
            vec![hk::transparent_input(txid, idx_b, seq_b, tl_b, hl_b, ss_b.clone(), val_b, vec![0x51], rs_b.clone(), sh_b)],
            vec![hk::transparent_output(9, vec![0x52], ors_b.clone(), None)],
        )
    };
    let ab = hk::merge_transparent(mk_a(), mk_b(), &g, &g);
    let ba = hk::merge_transparent(mk_b(), mk_a(), &g, &g);
    let c32 = |x: Option<u32>, y: Option<u32>| matches!((x, y), (Some(p), Some(q)) if p != q);
    let cb = |x: &Option<Vec<u8>>, y: &Option<Vec<u8>>| matches!((x, y), (Some(p), Some(q)) if p != q);
    let same = idx_a == idx_b && val_a == val_b && sh_a == sh_b;
    let conflict = c32(seq_a, seq_b) || c32(tl_a, tl_b) || c32(hl_a, hl_b) || cb(&ss_a, &ss_b) || cb(&rs_a, &rs_b) || cb(&ors_a, &ors_b);
    assert!(ab.is_some() == (same && !conflict));
    assert!(ab.is_some() == ba.is_some());
    if let (Some(x), Some(y)) = (&ab, &ba) {
        let (i, j) = (&x.inputs()[0], &y.inputs()[0]);
        let (oi, oj) = (hk::transparent_input_optionals(i), hk::transparent_input_optionals(j));
        assert!(oi.0 == seq_a.or(seq_b) && oi.1 == tl_a.or(tl_b) && oi.2 == hl_a.or(hl_b));
        assert!(*oi.3 == ss_a.clone().or(ss_b.clone()) && *oi.4 == rs_a.clone().or(rs_b.clone()));
        assert!(oi.0 == oj.0 && oi.1 == oj.1 && oi.2 == oj.2 && oi.3 == oj.3 && oi.4 == oj.4);
        assert!(x.inputs().len() == 1 && x.outputs().len() == 1);
        assert!(*i.prevout_index() == idx_a && *i.value() == val_a);
        kani::cover!(seq_a.is_none() && seq_b.is_some() && ss_a.is_some() && ss_b.is_none());
    }
    kani::cover!(same && conflict);
    kani::cover!(!same);
    core::mem::forget((ab, ba));
}

// ---------------------------------------------------------------------------------------------
// Transparent bundle merge, list-length rule: the combined bundle has max(n_a, n_b) outputs — the
// common prefix merged, the longer side's tail moved over exactly once — and the merge is refused
// when it would add outputs to a copy whose outputs are not modifiable.
// ---------------------------------------------------------------------------------------------
/// `merge_map` restricted to two empty maps (all maps are empty in these harnesses, which the stub
/// asserts): its loop over the right-hand map does not execute and it returns true.
fn merge_map_both_empty<K: Ord, V: PartialEq>(lhs: &mut BTreeMap<K, V>, rhs: BTreeMap<K, V>) -> bool {
    assert!(lhs.is_empty() && rhs.is_empty());
    core::mem::forget(rhs);
    true
}

macro_rules! transparent_len_rule {
    ($name:ident, $na:expr, $nb:expr) => {
        #[kani::proof]
        #[kani::stub(pczt::roles::combiner::merge_map, merge_map_both_empty)]
        #[kani::unwind(6)]
        fn $name() {
            const NA: usize = $na;
            const NB: usize = $nb;
            let (fa, fb): (u8, u8) = (kani::any(), kani::any());
            let ga = hk::global(5, 0x26A7270A, 0xC8E71055, None, 0, 133, fa, BTreeMap::new());
            let gb = hk::global(5, 0x26A7270A, 0xC8E71055, None, 0, 133, fb, BTreeMap::new());
            // output i carries value v[i] on both sides, except that side b's copy of the common
            // prefix may differ in its first value
            let v: [u64; 3] = [kani::any(), kani::any(), kani::any()];
            let vb0: u64 = kani::any();
            // capacity for the merged list up front: a reallocation inside `extend` multiplied the
            // size of the formula (the receiving-copy-shorter instance ran out of memory at 34 GB)
            let mut oa = Vec::with_capacity(3);
            let mut i = 0;
            while i < NA {
                oa.push(hk::transparent_output(v[i], vec![0x52], None, None));
                i += 1;
            }
            let mut ob = Vec::new();
            let mut i = 0;
            while i < NB {
                ob.push(hk::transparent_output(if i == 0 { vb0 } else { v[i] }, vec![0x52], None, None));
                i += 1;
            }
            let r = hk::merge_transparent(hk::transparent_bundle(Vec::new(), oa), hk::transparent_bundle(Vec::new(), ob), &ga, &gb);
            let a_mod = fa & 0b10 != 0;
            let b_mod = fb & 0b10 != 0;
            let adds_to_a = NA < NB;
            let adds_to_b = NA > NB;
            let prefix_same = NA == 0 || NB == 0 || vb0 == v[0];
            let want = !(adds_to_a && !a_mod) && !(adds_to_b && !b_mod) && prefix_same;
            assert!(r.is_some() == want);
            if let Some(b) = &r {
                let n = if NA > NB { NA } else { NB };
                assert!(b.inputs().len() == 0);
                assert!(b.outputs().len() == n);
                let mut i = 0;
                while i < n {
                    let expect = if i == 0 && NA == 0 { vb0 } else { v[i] };
                    assert!(*b.outputs()[i].value() == expect);
                    i += 1;
                }
                kani::cover!(true);
            } else {
                kani::cover!(true);
            }
            core::mem::forget(r);
        }
    };
}
//@ {"p":"C13","tier":"thorough","mem_gb":44,"clause":"transparent::Bundle::merge, output lists of different lengths (receiving copy shorter): Some iff the receiving copy's outputs are modifiable and the common prefix agrees; the result has exactly max(n_a, n_b) outputs, the prefix kept and the other copy's tail moved over once, in order","bounds":"0 inputs; 1 output vs 2 outputs; output values and both tx_modifiable bytes symbolic; scripts concrete, maps empty","assume":"stub: roles::combiner::merge_map on two empty maps = true (asserted empty)","stub":true,"replay":"model","covers":2,"t":2400,"unwindset":{"collections::btree.*":2,"drop_glue::<[pczt::transparent::Output]>.0":3,"drop_glue::<[pczt::transparent::Input]>.0":1,"std::vec::Drain<'_, pczt::transparent::Output> as std::iter::Iterator>::fold.0":2,"std::vec::Drain<'_, pczt::transparent::Input> as std::iter::Iterator>::fold.0":1}}
transparent_len_rule!(c13_transparent_outputs_1_2, 1, 2);
//@ {"p":"C13","tier":"quick","clause":"same, receiving copy longer: Some iff the OTHER copy's outputs are modifiable and the prefix agrees; nothing is moved","bounds":"0 inputs; 2 outputs vs 1 output","assume":"stub: merge_map on two empty maps","stub":true,"replay":"model","covers":2,"t":2400,"unwindset":{"collections::btree.*":2,"drop_glue::<[pczt::transparent::Output]>.0":3,"drop_glue::<[pczt::transparent::Input]>.0":1,"std::vec::Drain<'_, pczt::transparent::Output> as std::iter::Iterator>::fold.0":2,"std::vec::Drain<'_, pczt::transparent::Input> as std::iter::Iterator>::fold.0":1}}
transparent_len_rule!(c13_transparent_outputs_2_1, 2, 1);
//@ {"p":"C13","tier":"thorough","clause":"same, empty receiving copy","bounds":"0 inputs; 0 outputs vs 2 outputs","assume":"stub: merge_map on two empty maps","stub":true,"replay":"model","covers":2,"t":2400,"unwindset":{"collections::btree.*":2,"drop_glue::<[pczt::transparent::Output]>.0":3,"drop_glue::<[pczt::transparent::Input]>.0":1,"std::vec::Drain<'_, pczt::transparent::Output> as std::iter::Iterator>::fold.0":3,"std::vec::Drain<'_, pczt::transparent::Input> as std::iter::Iterator>::fold.0":1}}
transparent_len_rule!(c13_transparent_outputs_0_2, 0, 2);
