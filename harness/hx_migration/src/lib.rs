//! Kani harnesses over zcash_pool_migration and zcash_protocol::zip318 (C16, C17, C18).
//! See hx_light/src/lib.rs for the `//@` metadata format.
#![allow(dead_code, unused_imports, clippy::all)]

#[cfg(kani)]
mod symrng;
#[cfg(kani)]
mod c17_sched;
#[cfg(kani)]
mod c16_denom;
#[cfg(kani)]
mod c18_state;
