//! A generator whose every output word is `kani::any()`: "for every random stream" is then the
//! solver's query. `budget` bounds the number of words one harness may consume; a path that
//! asks for more is cut (`assume(false)`), i.e. the claim covers every stream under which the
//! rejection loops of the code under test end within `budget` draws (biased and low-entropy
//! streams included).
use rand_core::{CryptoRng, Error, RngCore};

pub struct SymRng {
    pub left: u32,
    pub drawn: u32,
}

impl SymRng {
    pub fn new(budget: u32) -> Self {
        SymRng { left: budget, drawn: 0 }
    }
}

impl RngCore for SymRng {
    fn next_u32(&mut self) -> u32 {
        self.next_u64() as u32
    }
    fn next_u64(&mut self) -> u64 {
        kani::assume(self.left > 0);
        self.left -= 1;
        self.drawn += 1;
        kani::any()
    }
    fn fill_bytes(&mut self, dest: &mut [u8]) {
        for b in dest.iter_mut() {
            *b = self.next_u64() as u8;
        }
    }
    fn try_fill_bytes(&mut self, dest: &mut [u8]) -> Result<(), Error> {
        self.fill_bytes(dest);
        Ok(())
    }
}

impl CryptoRng for SymRng {}
