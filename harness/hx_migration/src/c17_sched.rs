//! C17 — schedules, anchors, expiries, shuffles, wake-ups and labels stay canonical.
use crate::symrng::SymRng;
use core::num::NonZeroU32;
use zcash_pool_migration::scheduling::{
    self as sch, AnchorBucketInterval, DelayDistribution, SchedulingParams, WakeupParams,
};
use zcash_protocol::consensus::BlockHeight;
use zcash_protocol::zip318::{self, PoolMigrationConstants};

fn bh(h: u32) -> BlockHeight {
    BlockHeight::from_u32(h)
}

// ------------------------------------------------------------------------------------------ expiry

struct Zip318Defaults;
impl PoolMigrationConstants for Zip318Defaults {}

//@ {"p":"C17","tier":"quick","clause":"expiry_height(h) = floor(h/34560)*34560 + 69120 saturating at u32::MAX, strictly above h unless saturated, at most 69120 above; canonical_expiry / is_canonical_expiry / is_canonical_expiry_value agree with it","bounds":"all u32 heights","covers":2,"t":300}
#[kani::proof]
fn c17_expiry_closed_form() {
    const M: u32 = 34_560;
    // heights whose period start plus two periods exceeds u32::MAX saturate
    const SAT_FROM: u32 = (u32::MAX / M - 1) * M; // 4_294_909_440
    assert!(zip318::EXPIRY_MODULUS == M && zip318::EXPIRY_WINDOW == 2 * M);
    let h: u32 = kani::any();
    let e = u32::from(zip318::expiry_height(bh(h)));
    if h < SAT_FROM {
        // the unique multiple of M in (h + M, h + 2M]
        assert!(e % M == 0);
        assert!(e > h && e - h <= 2 * M && e - h > M);
        assert!(Zip318Defaults.is_canonical_expiry_value(bh(e)));
        kani::cover!(e - h == M + 1);
        kani::cover!(e - h == 2 * M);
    } else {
        assert!(e == u32::MAX);
    }
    assert!(Zip318Defaults.canonical_expiry(bh(h)) == bh(e));
    assert!(Zip318Defaults.is_canonical_expiry(bh(e), bh(h)));
    let other: u32 = kani::any();
    assert!(Zip318Defaults.is_canonical_expiry(bh(other), bh(h)) == (other == e));
    assert!(sch::expiry_height(bh(h)) == bh(e));
}

// ------------------------------------------------------------------------------------------ delays

/// Contract of `libm::log` on the only inputs `draw` gives it (u in (0,1], u >= 2^-53): a finite
/// non-positive number no smaller than ln(2^-53) ~ -36.74. The stub returns ANY such value, so the
/// claim holds for every (even wildly inaccurate) logarithm.
fn log_stub(x: f64) -> f64 {
    assert!(x > 0.0 && x <= 1.0);
    let r: f64 = kani::any();
    kani::assume(r <= 0.0 && r >= -37.0);
    r
}

//@ {"p":"C17","tier":"quick","clause":"DelayDistribution::new(mean,cap) is Some iff cap >= mean and reports them back; draw() returns a delay <= cap for every stream and every value the logarithm could return; the logarithm is only ever asked for u in (0,1]","bounds":"all (mean,cap) in NonZeroU32^2; streams with at most 3 rejected draws","assume":"stub: libm::log returns an arbitrary value in [-37,0] (contract on (0,1]) and asserts its argument is in (0,1]","covers":2,"t":600,"unwind":5}
#[kani::proof]
#[kani::stub(libm::log, log_stub)]
#[kani::unwind(5)]
fn c17_delay_within_cap() {
    let mean: u32 = kani::any();
    let cap: u32 = kani::any();
    kani::assume(mean > 0 && cap > 0);
    let d = DelayDistribution::new(NonZeroU32::new(mean).unwrap(), NonZeroU32::new(cap).unwrap());
    assert!(d.is_some() == (cap >= mean));
    if let Some(d) = d {
        assert!(d.mean().get() == mean && d.cap().get() == cap);
        let mut rng = SymRng::new(3);
        let x = d.draw(&mut rng);
        assert!(x <= cap);
        kani::cover!(x == cap && rng.drawn == 2);
        kani::cover!(x == 0);
    }
}

//@ {"p":"C17","tier":"quick","clause":"SchedulingParams::new_with_default_distributions(i): every scaled cap >= its scaled mean >= 1 (so the unvalidated construction is a valid DelayDistribution), equals ZIP_318 at i=144, and equals floor(v*i/144) clamped to [1,u32::MAX]","bounds":"all NonZeroU32 intervals","covers":2,"t":600}
#[kani::proof]
fn c17_default_distributions_valid() {
    let i: u32 = kani::any();
    kani::assume(i > 0);
    let iv = AnchorBucketInterval::custom(NonZeroU32::new(i).unwrap());
    let p = SchedulingParams::new_with_default_distributions(iv);
    assert!(p.anchor_bucket_interval() == iv);
    let scale = |v: u64| -> u32 {
        let s = v * (i as u64) / 144;
        if s > u32::MAX as u64 {
            u32::MAX
        } else if s == 0 {
            1
        } else {
            s as u32
        }
    };
    let (t, q) = (p.transfer_delay(), p.preparation_delay());
    assert!(t.mean().get() == scale(66) && t.cap().get() == scale(576));
    assert!(q.mean().get() == scale(16) && q.cap().get() == scale(96));
    assert!(t.cap() >= t.mean() && q.cap() >= q.mean());
    assert!(DelayDistribution::new(t.mean(), t.cap()) == Some(t));
    assert!(DelayDistribution::new(q.mean(), q.cap()) == Some(q));
    if i == 144 {
        assert!(p == SchedulingParams::ZIP_318);
    }
    kani::cover!(i == 1);
    kani::cover!(t.cap().get() == u32::MAX && t.mean().get() < u32::MAX);
}

fn params_with(mean_t: u32, cap_t: u32, mean_p: u32, cap_p: u32) -> SchedulingParams {
    SchedulingParams::new(
        AnchorBucketInterval::ZIP_318,
        DelayDistribution::new(NonZeroU32::new(mean_t).unwrap(), NonZeroU32::new(cap_t).unwrap()).unwrap(),
        DelayDistribution::new(NonZeroU32::new(mean_p).unwrap(), NonZeroU32::new(cap_p).unwrap()).unwrap(),
    )
}

//@ {"p":"C17","tier":"quick","clause":"schedule(): one entry per part, broadcast heights non-decreasing and >= commit height, each step <= transfer cap unless saturated at u32::MAX, every expiry is expiry_height(broadcast height); schedule_prep_broadcast_heights likewise with the preparation cap","bounds":"3 parts; commit height, means and caps symbolic over u32; streams with at most 1 rejected draw per part","assume":"stub: libm::log arbitrary in [-37,0]","covers":2,"t":900,"unwind":5}
#[kani::proof]
#[kani::stub(libm::log, log_stub)]
#[kani::unwind(5)]
fn c17_schedule_monotone() {
    let (mt, ct, mp, cp): (u32, u32, u32, u32) = (kani::any(), kani::any(), kani::any(), kani::any());
    kani::assume(mt > 0 && ct >= mt && mp > 0 && cp >= mp);
    let p = params_with(mt, ct, mp, cp);
    let start: u32 = kani::any();
    let mut rng = SymRng::new(4);
    let s = sch::schedule(&p, bh(start), 3, &mut rng);
    assert!(s.len() == 3);
    let mut prev = start;
    let mut i = 0;
    while i < 3 {
        let b = u32::from(s[i].broadcast_height());
        assert!(b >= prev);
        assert!((b as u64) <= prev as u64 + ct as u64);
        assert!(b == u32::MAX || b - prev <= ct);
        assert!(s[i].expiry_height() == zip318::expiry_height(bh(b)));
        prev = b;
        i += 1;
    }
    kani::cover!(prev == u32::MAX && start < u32::MAX);
    kani::cover!(prev == start);
    core::mem::forget(s);
    let mut rng2 = SymRng::new(3);
    let q = sch::schedule_prep_broadcast_heights(&p, bh(start), 2, &mut rng2);
    assert!(q.len() == 2);
    let (q0, q1) = (u32::from(q[0]), u32::from(q[1]));
    assert!(q0 >= start && q1 >= q0);
    assert!((q0 == u32::MAX || q0 - start <= cp) && (q1 == u32::MAX || q1 - q0 <= cp));
    core::mem::forget(q);
}

// ------------------------------------------------------------------------------------------ shuffle

macro_rules! shuffle_perm {
    ($name:ident, $n:expr) => {
        #[kani::proof]
        #[kani::unwind(8)]
        fn $name() {
            const N: usize = $n;
            let mut rng = SymRng::new(N as u32 + 1);
            let v = sch::shuffle_indices(N, &mut rng);
            assert!(v.len() == N);
            // a permutation of 0..N: every value in range and every value hit exactly once
            let x: usize = kani::any();
            kani::assume(x < N);
            let mut count = 0;
            let mut i = 0;
            while i < N {
                assert!(v[i] < N);
                if v[i] == x {
                    count += 1;
                }
                i += 1;
            }
            assert!(count == 1);
            if N >= 2 {
                kani::cover!(v[0] == N - 1);
                kani::cover!(v[N - 1] == N - 1);
            }
            core::mem::forget(v);
            // shuffle_in_place on arbitrary contents keeps the multiset
            let mut a: [u8; N] = kani::any();
            let orig = a;
            let mut rng2 = SymRng::new(N as u32 + 1);
            sch::shuffle_in_place(&mut a, &mut rng2);
            let y: u8 = kani::any();
            let (mut c0, mut c1) = (0, 0);
            let mut j = 0;
            while j < N {
                if orig[j] == y {
                    c0 += 1;
                }
                if a[j] == y {
                    c1 += 1;
                }
                j += 1;
            }
            assert!(c0 == c1);
        }
    };
}

//@ {"p":"C17","tier":"quick","clause":"shuffle_indices(4) is a permutation of 0..4 and shuffle_in_place keeps the multiset, for every stream (Lemire rejection included)","bounds":"n=4; streams with at most 1 rejected draw in total","covers":2,"t":600}
shuffle_perm!(c17_shuffle_perm_4, 4);
//@ {"p":"C17","tier":"quick","clause":"same for n=2 and the identity cases","bounds":"n=2","covers":2,"t":300}
shuffle_perm!(c17_shuffle_perm_2, 2);
//@ {"p":"C17","tier":"thorough","clause":"same for n=5","bounds":"n=5","covers":2,"t":900}
shuffle_perm!(c17_shuffle_perm_5, 5);

//@ {"p":"C17","tier":"quick","clause":"shuffle of 0 or 1 elements is the identity and draws nothing","bounds":"n in {0,1}","covers":0,"t":300}
#[kani::proof]
#[kani::unwind(4)]
fn c17_shuffle_trivial() {
    let mut rng = SymRng::new(1);
    let v0 = sch::shuffle_indices(0, &mut rng);
    let v1 = sch::shuffle_indices(1, &mut rng);
    assert!(v0.is_empty() && v1.len() == 1 && v1[0] == 0 && rng.drawn == 0);
    core::mem::forget(v0);
    core::mem::forget(v1);
}

// ------------------------------------------------------------------------------------------ anchors

/// Reference: the candidate set is { mr - age*I : age in 1..=4 } intersected with b > act,
/// b >= fund, where mr is the most recent grid boundary at or below the tip (the grid functions
/// themselves are checked against their definition by the c17_grid_fns_* harnesses, so mr is
/// taken from the API here instead of paying for a second division).
fn anchor_reference(i: u32, act: u32, fund: u32, mr: u32, got: Option<u32>) {
    let mut any_candidate = false;
    let mut got_is_candidate = false;
    let mut age: u64 = 1;
    while age <= 4 {
        let off = age * i as u64;
        if off <= mr as u64 {
            let b = mr - off as u32;
            if b > act && b >= fund {
                any_candidate = true;
                if got == Some(b) {
                    got_is_candidate = true;
                }
            }
        }
        age += 1;
    }
    match got {
        Some(b) => {
            assert!(got_is_candidate);
            assert!(b > act && b >= fund && b < mr);
        }
        None => assert!(!any_candidate),
    }
}

macro_rules! anchor_draw {
    ($name:ident, $i:expr) => {
        #[kani::proof]
        #[kani::unwind(6)]
        fn $name() {
            const I: u32 = $i;
            let iv = AnchorBucketInterval::custom(NonZeroU32::new(I).unwrap());
            let (act, fund, tip): (u32, u32, u32) = (kani::any(), kani::any(), kani::any());
            let mut rng = SymRng::new(2);
            let got = sch::draw_anchor_boundary(iv, bh(act), bh(fund), bh(tip), &mut rng).map(u32::from);
            let mr = u32::from(iv.boundary_at_or_below(bh(tip)));
            anchor_reference(I, act, fund, mr, got);
            // a tip at or after earliest_broadcast_height always has a candidate
            let ebh = u32::from(sch::earliest_broadcast_height(iv, bh(act), bh(fund)));
            if tip >= ebh && ebh < u32::MAX {
                assert!(got.is_some());
            }
            kani::cover!(got.is_none() && tip > act && tip > fund);
            kani::cover!(got.is_some() && mr - got.unwrap() == 4 * I);
            kani::cover!(got.is_some() && rng.drawn == 2);
        }
    };
}

//@ {"p":"C17","tier":"quick","clause":"draw_anchor_boundary, ZIP 318 grid (144): Some(b) => b on the grid, > activation, >= funding height, strictly below the most recent boundary, age <= 4; None iff no such boundary exists; tip >= earliest_broadcast_height => Some","bounds":"all activation/funding/tip heights in u32; streams whose rejection loop ends within 2 words (128 coin flips)","covers":3,"t":900,"unwindset":{"scheduling::draw_anchor_age::<symrng::SymRng>.0":65,"scheduling::draw_anchor_age::<symrng::SymRng>.1":3,"scheduling::sample_recency_weighted_boundary::<symrng::SymRng>.0":3}}
anchor_draw!(c17_anchor_draw_144, 144);
//@ {"p":"C17","tier":"quick","clause":"same, interval 1 (every height a boundary)","bounds":"all heights; 2 words","covers":3,"t":900,"unwindset":{"scheduling::draw_anchor_age::<symrng::SymRng>.0":65,"scheduling::draw_anchor_age::<symrng::SymRng>.1":3,"scheduling::sample_recency_weighted_boundary::<symrng::SymRng>.0":3}}
anchor_draw!(c17_anchor_draw_1, 1);
//@ {"p":"C17","tier":"seeded:anchor","clause":"same, interval 12","bounds":"all heights; 2 words","covers":3,"t":900,"unwindset":{"scheduling::draw_anchor_age::<symrng::SymRng>.0":65,"scheduling::draw_anchor_age::<symrng::SymRng>.1":3,"scheduling::sample_recency_weighted_boundary::<symrng::SymRng>.0":3}}
anchor_draw!(c17_anchor_draw_12, 12);
//@ {"p":"C17","tier":"seeded:anchor","clause":"same, interval 2","bounds":"all heights; 2 words","covers":3,"t":900,"unwindset":{"scheduling::draw_anchor_age::<symrng::SymRng>.0":65,"scheduling::draw_anchor_age::<symrng::SymRng>.1":3,"scheduling::sample_recency_weighted_boundary::<symrng::SymRng>.0":3}}
anchor_draw!(c17_anchor_draw_2, 2);
//@ {"p":"C17","tier":"seeded:anchor","clause":"same, interval 1000","bounds":"all heights; 2 words","covers":3,"t":900,"unwindset":{"scheduling::draw_anchor_age::<symrng::SymRng>.0":65,"scheduling::draw_anchor_age::<symrng::SymRng>.1":3,"scheduling::sample_recency_weighted_boundary::<symrng::SymRng>.0":3}}
anchor_draw!(c17_anchor_draw_1000, 1000);

macro_rules! anchor_draw_huge {
    ($name:ident, $i:expr) => {
        #[kani::proof]
        #[kani::unwind(6)]
        fn $name() {
            const I: u32 = $i;
            let iv = AnchorBucketInterval::custom(NonZeroU32::new(I).unwrap());
            let (act, fund, tip): (u32, u32, u32) = (kani::any(), kani::any(), kani::any());
            let mut rng = SymRng::new(2);
            let got = sch::draw_anchor_boundary(iv, bh(act), bh(fund), bh(tip), &mut rng).map(u32::from);
            let mr = u32::from(iv.boundary_at_or_below(bh(tip)));
            anchor_reference(I, act, fund, mr, got);
            kani::cover!(got.is_none());
        }
    };
}
//@ {"p":"C17","tier":"quick","clause":"same, interval 2^31 (age*interval overflows u32: checked_mul path); at most one boundary pair exists","bounds":"all heights; 2 words","covers":1,"t":900,"unwindset":{"scheduling::draw_anchor_age::<symrng::SymRng>.0":65,"scheduling::draw_anchor_age::<symrng::SymRng>.1":3,"scheduling::sample_recency_weighted_boundary::<symrng::SymRng>.0":3}}
anchor_draw_huge!(c17_anchor_draw_2p31, 1u32 << 31);

macro_rules! anchor_redraw {
    ($name:ident, $i:expr) => {
        #[kani::proof]
        #[kani::unwind(6)]
        fn $name() {
            const I: u32 = $i;
            let iv = AnchorBucketInterval::custom(NonZeroU32::new(I).unwrap());
            let (prior, bcast): (u32, u32) = (kani::any(), kani::any());
            let mut rng = SymRng::new(2);
            let got = sch::redraw_anchor_boundary(iv, bh(prior), bh(bcast), &mut rng).map(u32::from);
            let mr = u32::from(iv.boundary_at_or_below(bh(bcast)));
            // candidates: grid boundaries b with prior <= b < mr and age (mr-b)/I in 1..=4
            let mut any_candidate = false;
            let mut hit = false;
            let mut age: u64 = 1;
            while age <= 4 {
                let off = age * I as u64;
                if off <= mr as u64 {
                    let b = mr - off as u32;
                    if b >= prior {
                        any_candidate = true;
                        if got == Some(b) {
                            hit = true;
                        }
                    }
                }
                age += 1;
            }
            match got {
                Some(b) => assert!(hit && b >= prior && b < mr),
                None => assert!(!any_candidate),
            }
            kani::cover!(got.is_none() && bcast > prior);
            kani::cover!(got.is_some() && mr - got.unwrap() == 3 * I);
        }
    };
}
//@ {"p":"C17","tier":"quick","clause":"redraw_anchor_boundary (144): Some(b) => b on the grid, >= prior boundary, strictly below the most recent boundary at the new broadcast height, age <= 4; None iff no such boundary","bounds":"all prior/broadcast heights in u32; 2 words","covers":2,"t":900,"unwindset":{"scheduling::draw_anchor_age::<symrng::SymRng>.0":65,"scheduling::draw_anchor_age::<symrng::SymRng>.1":3,"scheduling::sample_recency_weighted_boundary::<symrng::SymRng>.0":3}}
anchor_redraw!(c17_anchor_redraw_144, 144);
//@ {"p":"C17","tier":"thorough","clause":"same, interval 12","bounds":"all heights; 2 words","covers":2,"t":900,"unwindset":{"scheduling::draw_anchor_age::<symrng::SymRng>.0":65,"scheduling::draw_anchor_age::<symrng::SymRng>.1":3,"scheduling::sample_recency_weighted_boundary::<symrng::SymRng>.0":3}}
anchor_redraw!(c17_anchor_redraw_12, 12);

macro_rules! grid_fns {
    ($name:ident, $i:expr) => {
        #[kani::proof]
        fn $name() {
            const I: u32 = $i;
            let iv = AnchorBucketInterval::custom(NonZeroU32::new(I).unwrap());
            let h: u32 = kani::any();
            let lo = u32::from(iv.boundary_at_or_below(bh(h)));
            let hi = u32::from(iv.boundary_at_or_above(bh(h)));
            assert!(iv.is_boundary(bh(h)) == (h % I == 0));
            assert!(lo % I == 0 && lo <= h && h - lo < I);
            let up = (h as u64 + I as u64 - 1) / I as u64 * I as u64;
            if up <= u32::MAX as u64 {
                assert!(hi as u64 == up && hi % I == 0 && hi >= h && hi - h < I);
            } else {
                assert!(hi == u32::MAX);
            }
            kani::cover!(lo == hi);
            kani::cover!(hi == u32::MAX && h % I != 0);
        }
    };
}
//@ {"p":"C17","tier":"quick","clause":"AnchorBucketInterval(144): is_boundary iff multiple; boundary_at_or_below is the greatest multiple <= h; boundary_at_or_above the least multiple >= h, saturating at u32::MAX","bounds":"all u32 heights","covers":2,"t":300}
grid_fns!(c17_grid_fns_144, 144);
//@ {"p":"C17","tier":"thorough","clause":"same for interval 7","bounds":"all u32 heights","covers":2,"t":300}
grid_fns!(c17_grid_fns_7, 7);

// ------------------------------------------------------------------------------------------ wake-ups

/// Contract of the private `gen_index(rng, bound)`: some value in `[0, bound)`. Its body (Lemire
/// rejection with a symbolic 64-bit modulus) is exercised un-stubbed by the shuffle harnesses.
fn gen_index_stub<R: rand_core::RngCore>(_rng: &mut R, bound: usize) -> usize {
    assert!(bound > 0);
    let v: usize = kani::any();
    kani::assume(v < bound);
    v
}

fn pierce_min(w: &[(u32, u32)], n: usize) -> usize {
    // minimum number of points piercing n <= 3 non-empty intervals [lo, hi]
    let meet = |a: (u32, u32), b: (u32, u32)| a.0.max(b.0) <= a.1.min(b.1);
    match n {
        0 => 0,
        1 => 1,
        2 => {
            if meet(w[0], w[1]) {
                1
            } else {
                2
            }
        }
        _ => {
            let all = w[0].0.max(w[1].0).max(w[2].0) <= w[0].1.min(w[1].1).min(w[2].1);
            if all {
                1
            } else if meet(w[0], w[1]) || meet(w[0], w[2]) || meet(w[1], w[2]) {
                2
            } else {
                3
            }
        }
    }
}

macro_rules! wakeups {
    ($name:ident, $n:expr) => {
        #[kani::proof]
        #[kani::stub(zcash_pool_migration::scheduling::gen_index, gen_index_stub)]
        #[kani::unwind(6)]
        fn $name() {
            const N: usize = $n;
            let margin: u32 = kani::any();
            let jcap: u32 = kani::any();
            let params = WakeupParams::new(margin, jcap);
            let m = if margin == 0 { 1 } else { margin };
            let tip: u32 = kani::any();
            let a: [u32; N] = kani::any();
            let b: [u32; N] = kani::any();
            let mut tr: [(u8, BlockHeight, BlockHeight); N] = [(0, bh(0), bh(0)); N];
            let mut i = 0;
            while i < N {
                tr[i] = (i as u8, bh(a[i]), bh(b[i]));
                i += 1;
            }
            let mut rng = SymRng::new(N as u32);
            let r = sch::schedule_sync_wakeups(&params, bh(tip), &tr, &mut rng);
            // reference windows
            let mut infeasible: Option<u8> = None;
            let mut k = N;
            while k > 0 {
                k -= 1;
                if (b[k] as u64) <= a[k] as u64 + 1 {
                    infeasible = Some(k as u8);
                }
            }
            match r {
                Err(sch::WakeupScheduleError::InfeasibleTransfer(id)) => {
                    assert!(infeasible == Some(id));
                    kani::cover!(id as usize == N - 1);
                }
                Ok(w) => {
                    assert!(infeasible.is_none());
                    // strictly increasing, never in the past
                    let mut j = 0;
                    while j < w.len() {
                        assert!(u32::from(w[j].height()) >= tip);
                        if j > 0 {
                            assert!(w[j].height() > w[j - 1].height());
                        }
                        assert!(!w[j].covers().is_empty());
                        j += 1;
                    }
                    // every transfer covered exactly once, inside its proving window
                    let mut any_overdue = false;
                    let mut t = 0;
                    while t < N {
                        if b[t] - 1 < tip {
                            any_overdue = true;
                        }
                        t += 1;
                    }
                    let mut win: [(u32, u32); N] = [(0, 0); N];
                    let mut nwin = 0;
                    let mut t = 0;
                    while t < N {
                        let deadline = b[t] - 1;
                        let ready = a[t].saturating_add(m).min(deadline).max(tip);
                        let mut times = 0;
                        let mut at = 0u32;
                        let mut j = 0;
                        while j < w.len() {
                            let c = w[j].covers();
                            let mut q = 0;
                            while q < c.len() {
                                if c[q] as usize == t {
                                    times += 1;
                                    at = u32::from(w[j].height());
                                }
                                q += 1;
                            }
                            j += 1;
                        }
                        assert!(times == 1);
                        if deadline < tip {
                            assert!(at == tip); // overdue: prove right now
                        } else {
                            assert!(at >= ready && at <= deadline);
                            // strictly after the anchor boundary settles, strictly before broadcast
                            assert!(at > a[t] || at == tip);
                            assert!(at < b[t]);
                            if !(any_overdue && ready == tip) {
                                win[nwin] = (ready, deadline);
                                nwin += 1;
                            }
                        }
                        t += 1;
                    }
                    // minimality against brute force
                    let want = pierce_min(&win, nwin) + if any_overdue { 1 } else { 0 };
                    assert!(w.len() == want);
                    kani::cover!(w.len() == N && N > 1);
                    kani::cover!(w.len() == 1 && any_overdue);
                    kani::cover!(w.len() == 1 && !any_overdue && N > 1);
                    core::mem::forget(w);
                }
            }
        }
    };
}

//@ {"p":"C17","tier":"experimental","clause":"schedule_sync_wakeups, 2 transfers: InfeasibleTransfer(first id with broadcast <= anchor+1) iff one exists; otherwise every transfer is covered exactly once, at a height inside [max(min(anchor+margin', deadline), tip), broadcast-1] (= tip if overdue), heights strictly increasing and >= tip, and the number of wake-ups equals the brute-force minimum piercing number","bounds":"2 transfers; anchors, broadcast heights, tip, settle margin, jitter cap all symbolic in u32","assume":"stub: private gen_index returns an arbitrary value < bound (its contract)","covers":3,"t":1800,"unwindset":{"core::slice::sort.*":4,"fn:core::slice::sort":2}}
wakeups!(c17_wakeups_2, 2);
//@ {"p":"C17","tier":"experimental","clause":"same, 1 transfer","bounds":"1 transfer, all heights/params symbolic","assume":"stub: gen_index arbitrary < bound","covers":1,"t":1200,"unwindset":{"core::slice::sort.*":4,"fn:core::slice::sort":2}}
wakeups!(c17_wakeups_1, 1);
//@ {"p":"C17","tier":"experimental","clause":"same, 3 transfers (all overlap patterns of three windows)","bounds":"3 transfers, all heights/params symbolic","assume":"stub: gen_index arbitrary < bound","covers":3,"t":5400,"unwindset":{"core::slice::sort.*":4,"fn:core::slice::sort":2}}
wakeups!(c17_wakeups_3, 3);

// ------------------------------------------------------------------------------------------ labels

use zcash_protocol::value::Zatoshis;
use zcash_protocol::zip318::{Zip318Classification as Cl, Zip318Evidence as Ev, Zip318TxKind};

const TABLE: [u64; 19] = [
    1_000_000, 2_000_000, 5_000_000, 10_000_000, 20_000_000, 50_000_000, 100_000_000, 200_000_000,
    500_000_000, 1_000_000_000, 2_000_000_000, 5_000_000_000, 10_000_000_000, 20_000_000_000,
    50_000_000_000, 100_000_000_000, 200_000_000_000, 500_000_000_000, 1_000_000_000_000,
];
fn in_table(v: u64) -> bool {
    let mut i = 0;
    let mut r = false;
    while i < 19 {
        if TABLE[i] == v {
            r = true;
        }
        i += 1;
    }
    r
}

struct RawEv {
    src: Option<usize>,
    dst: Option<usize>,
    other: Option<bool>,
    selfsend: Option<bool>,
    value: Option<u64>,
    expiry: Option<bool>,
    grid: Option<bool>,
    fee: Option<bool>,
}
fn any_opt_usize() -> Option<usize> {
    if kani::any() {
        Some(kani::any())
    } else {
        None
    }
}
fn any_opt_bool() -> Option<bool> {
    if kani::any() {
        Some(kani::any())
    } else {
        None
    }
}
fn any_raw() -> RawEv {
    let value = if kani::any() {
        let v: u64 = kani::any();
        kani::assume(v <= zcash_protocol::value::MAX_MONEY);
        Some(v)
    } else {
        None
    };
    RawEv {
        src: any_opt_usize(),
        dst: any_opt_usize(),
        other: any_opt_bool(),
        selfsend: any_opt_bool(),
        value,
        expiry: any_opt_bool(),
        grid: any_opt_bool(),
        fee: any_opt_bool(),
    }
}
fn build(r: &RawEv) -> Ev {
    Ev::default()
        .with_source_actions(r.src)
        .with_destination_actions(r.dst)
        .with_other_bundles_present(r.other)
        .with_source_is_send_to_self(r.selfsend)
        .with_sole_destination_value(r.value.map(|v| Zatoshis::from_u64(v).unwrap()))
        .with_expiry_is_canonical(r.expiry)
        .with_anchor_on_grid(r.grid)
        .with_fee_is_canonical(r.fee)
}
fn le<T: PartialEq + Copy>(a: Option<T>, b: Option<T>) -> bool {
    a.is_none() || a == b
}

//@ {"p":"C17","tier":"quick","clause":"classify is monotone over the whole evidence lattice: for e1 below e2 (each required field None-or-equal, the two confirmatory fields equal as the type's contract demands) classify(e1) is Unknown or equals classify(e2); Nonconforming implies one of the nine documented negative observations is present; Conforms(Transfer) implies the value is one of the 19 canonical denominations; Conforms(Preparation) implies 16 source actions and a send-to-self; to_code/from_code round-trip","bounds":"all evidence pairs: action counts in usize, destination value in [0,MAX_MONEY], every Option presence bit symbolic","covers":4,"t":1200,"unwind":21}
#[kani::proof]
#[kani::unwind(21)]
fn c17_classify_monotone() {
    let r2 = any_raw();
    let r1 = RawEv {
        src: if kani::any() { r2.src } else { None },
        dst: if kani::any() { r2.dst } else { None },
        other: if kani::any() { r2.other } else { None },
        selfsend: if kani::any() { r2.selfsend } else { None },
        value: if kani::any() { r2.value } else { None },
        expiry: if kani::any() { r2.expiry } else { None },
        grid: r2.grid,
        fee: r2.fee,
    };
    let (e1, e2) = (build(&r1), build(&r2));
    // accessors return what was recorded
    assert!(e2.source_actions() == r2.src && e2.destination_actions() == r2.dst);
    assert!(e2.other_bundles_present() == r2.other && e2.source_is_send_to_self() == r2.selfsend);
    assert!(e2.expiry_is_canonical() == r2.expiry && e2.anchor_on_grid() == r2.grid && e2.fee_is_canonical() == r2.fee);
    let c1 = zip318::classify(&e1, &Zip318Defaults);
    let c2 = zip318::classify(&e2, &Zip318Defaults);
    assert!(c1 == Cl::Unknown || c1 == c2);
    // nothing is refuted without a negative observation
    let negative = r2.grid == Some(false)
        || r2.fee == Some(false)
        || r2.other == Some(true)
        || r2.expiry == Some(false)
        || matches!(r2.dst, Some(d) if d > 1)
        || (r2.dst == Some(0) && matches!(r2.src, Some(s) if s != 16))
        || (r2.dst == Some(0) && r2.selfsend == Some(false))
        || (r2.dst == Some(1) && matches!(r2.src, Some(s) if s != 2))
        || (r2.dst == Some(1) && matches!(r2.value, Some(v) if !in_table(v)));
    if c2 == Cl::Nonconforming {
        assert!(negative);
    }
    if c2 == Cl::Conforms(Zip318TxKind::Transfer) {
        assert!(!negative && r2.dst == Some(1) && r2.src == Some(2) && in_table(r2.value.unwrap()));
    }
    if c2 == Cl::Conforms(Zip318TxKind::Preparation) {
        assert!(!negative && r2.dst == Some(0) && r2.src == Some(16) && r2.selfsend == Some(true));
    }
    assert!(Cl::from_code(c2.to_code()) == c2);
    let code: i64 = kani::any();
    let d = Cl::from_code(code);
    assert!(d == Cl::Unknown || d.to_code() == code);
    kani::cover!(c1 == Cl::Unknown && c2 == Cl::Conforms(Zip318TxKind::Transfer));
    kani::cover!(c1 == Cl::Unknown && c2 == Cl::Nonconforming);
    kani::cover!(c2 == Cl::Conforms(Zip318TxKind::Preparation));
    kani::cover!(c1 == Cl::Nonconforming && r1.src.is_none());
}
