//! C18 — a committed migration advances safely: ONE STEP from an ARBITRARY well-formed state.
//!
//! Representation invariant assumed of the pre-state (what `commit`/the store produce): unique
//! ids, `depends_on` only refers to earlier rows, Broadcast/Mined rows carry the row's own txid.
//! One inductive step from an arbitrary valid state covers event sequences of any length.
use zcash_pool_migration::denomination::DenominationPlan;
use zcash_pool_migration::engine::{
    MigrationState, MigrationStatus, MigrationTransaction, MigrationTransferId, MigrationTxKind, MigrationTxState,
};
use zcash_pool_migration::preparation::PreparationPlan;
use zcash_pool_migration::satisfiability::{DuenessTargets, ReplanThreshold, UnsatisfiableKind};
use zcash_pool_migration::scheduling::AnchorBucketInterval;
use zcash_pool_migration::state::{AdvanceStep, NextAction};
use zcash_pool_migration::verif_hooks as hk;
use zcash_protocol::consensus::BlockHeight;
use zcash_protocol::value::Zatoshis;
use zcash_protocol::TxId;

fn bh(h: u32) -> BlockHeight {
    BlockHeight::from_u32(h)
}
fn id(i: u32) -> MigrationTransferId {
    MigrationTransferId::new(i)
}
fn txid_of(i: u32) -> TxId {
    TxId::from_bytes([i as u8 + 1; 32])
}

#[derive(Clone, Copy)]
struct Row {
    st: u8, // 0 AwaitingSignature, 1 Signed, 2 Proved, 3 Broadcast, 4 Mined
    mined_h: u32,
    sched: u32,
    expiry: u32,
    unsat: Option<u32>,
    fail: Option<u32>,
}
fn any_row() -> Row {
    let st: u8 = kani::any();
    kani::assume(st < 5);
    Row {
        st,
        mined_h: kani::any(),
        sched: kani::any(),
        expiry: kani::any(),
        unsat: if kani::any() { Some(kani::any()) } else { None },
        fail: if kani::any() { Some(kani::any()) } else { None },
    }
}
fn rank(s: &MigrationTxState) -> u8 {
    match s {
        MigrationTxState::AwaitingSignature => 0,
        MigrationTxState::Signed => 1,
        MigrationTxState::Proved => 2,
        MigrationTxState::Broadcast { .. } => 3,
        MigrationTxState::Mined { .. } => 4,
    }
}
fn mk_tx(i: u32, kind: MigrationTxKind, deps: Vec<MigrationTransferId>, r: &Row) -> MigrationTransaction {
    let state = match r.st {
        0 => MigrationTxState::AwaitingSignature,
        1 => MigrationTxState::Signed,
        2 => MigrationTxState::Proved,
        3 => MigrationTxState::Broadcast { txid: txid_of(i) },
        _ => MigrationTxState::Mined { txid: txid_of(i), height: bh(r.mined_h) },
    };
    MigrationTransaction::from_parts(
        id(i),
        kind,
        Vec::new(),
        deps,
        bh(r.sched),
        bh(r.expiry),
        None,
        txid_of(i),
        state,
        None,
        r.unsat.map(|h| (bh(h), UnsatisfiableKind::InputsSpent)),
        Vec::new(),
        r.fail.map(bh),
    )
}
fn any_status() -> MigrationStatus {
    let k: u8 = kani::any();
    kani::assume(k < 7);
    MigrationStatus::ALL[k as usize]
}
fn z(v: u64) -> Zatoshis {
    Zatoshis::from_u64(v).unwrap()
}
/// prep(0) <- transfer(1) when `dep`, else two independent transfers.
fn mk_state(status: MigrationStatus, dep: bool, r0: &Row, r1: &Row) -> MigrationState {
    mk_state3(status, if dep { 1 } else { 0 }, r0, r1)
}
/// dep: 0 = two independent transfers, 1 = prep(0) <- transfer(1), 2 = transfer(1) depends on an id
/// that no row carries (a dangling edge: such a dependency is by definition not mined).
fn mk_state3(status: MigrationStatus, dep: u8, r0: &Row, r1: &Row) -> MigrationState {
    let dangling = dep == 2;
    let dep = dep == 1;
    let k0 = if dep {
        MigrationTxKind::Preparation { layer: 0, index: 0 }
    } else {
        MigrationTxKind::Transfer { crossing: 1 }
    };
    let t0 = mk_tx(0, k0, Vec::new(), r0);
    let t1 = mk_tx(
        1,
        MigrationTxKind::Transfer { crossing: 0 },
        if dep {
            vec![id(0)]
        } else if dangling {
            vec![id(9)]
        } else {
            Vec::new()
        },
        r1,
    );
    let den = DenominationPlan::from_stored_parts(
        vec![z(20_000_000), z(10_000_000)],
        z(15_000),
        None,
        Zatoshis::ZERO,
        z(30_030_000),
        z(30_000_000),
    )
    .unwrap();
    MigrationState::from_parts(
        status,
        den,
        PreparationPlan::from_parts(Vec::new(), Vec::new()),
        vec![t0, t1],
        AnchorBucketInterval::ZIP_318,
        ReplanThreshold::DEFAULT,
    )
}
fn expired_at(r: &Row, h: u32) -> bool {
    r.st != 4 && r.expiry != 0 && r.expiry < h
}

// The step decision (`next_step`) derives the set of transactions that can never mine
// (`dead_set`: a BTreeSet built by collect() + a fixpoint loop), offers a broadcast if
// `next_broadcastable` finds one, and otherwise goes on to proving / rebuilding / replanning
// (`provable_targets` collects and SORTS a Vec). With the real helpers the harness did not finish
// in 2400 s, and not in 900 s with `dead_set` alone stubbed. The clause is therefore decided in two
// pieces:
//   (1) c18_broadcast_guard_*: `next_broadcastable` itself (through the verif hook), for an
//       arbitrary well-formed state, with the dead set passed in as each of the four possible
//       sets over two transactions: the returned id satisfies every guard, the earliest-scheduled
//       eligible row wins, an eligible row is never withheld;
//   (2) c18_step_priority: `next_step` offers Broadcast{id} exactly when the migration is not
//       terminal and `next_broadcastable` returned Some(id) - with `dead_set`, `next_broadcastable`,
//       `provable_targets` and `next_rebuildable` stubbed by arbitrary answers.
// NOT decided: that the real `dead_set` computes the documented set, and the non-broadcast steps.
use std::collections::BTreeSet;

macro_rules! broadcast_guard {
    ($name:ident, $d0:expr, $d1:expr) => {
        #[kani::proof]
        #[kani::unwind(5)]
        fn $name() {
            let (r0, r1) = (any_row(), any_row());
            let dep3: u8 = kani::any();
            kani::assume(dep3 < 3);
            let dep = dep3 == 1;
            let status = any_status();
            let (scanned, est): (u32, u32) = (kani::any(), kani::any());
            let st = mk_state3(status, dep3, &r0, &r1);
            let targets = DuenessTargets::new(bh(scanned), bh(est));
            let eff = scanned.max(est);
            assert!(u32::from(targets.effective()) == eff && u32::from(targets.scanned()) == scanned);
            let mut dead = BTreeSet::new();
            if $d0 {
                dead.insert(id(0));
            }
            if $d1 {
                dead.insert(id(1));
            }
            let got = hk::next_broadcastable(&st, targets, &dead, &[]).map(u32::from);
            let ok_row = |r: &Row, deps_mined: bool, dead: bool| {
                r.st == 2 && deps_mined && r.sched <= eff && !expired_at(r, eff) && !dead && r.fail.is_none()
            };
            let ok0 = ok_row(&r0, true, $d0);
            let ok1 = ok_row(&r1, dep3 == 0 || (dep && r0.st == 4), $d1);
            match got {

                Some(g) => {
                    assert!(g <= 1);
                    assert!(if g == 0 { ok0 } else { ok1 });
                    // the earliest-scheduled eligible row is the one offered (ties by id)
                    if ok0 && ok1 {
                        assert!(if (r0.sched, 0) <= (r1.sched, 1) { g == 0 } else { g == 1 });
                    }
                    kani::cover!(g == 1 && dep);
                    kani::cover!(g == 0 && ok1);
                    kani::cover!(g == 0 && dep3 == 2 && r1.st == 2);
                }
                None => {
                    assert!(!ok0 && !ok1); // an eligible row is never withheld
                    kani::cover!(r1.st == 2 && r1.sched <= eff && r1.fail.is_none() && !expired_at(&r1, eff));
                }
            }
            core::mem::forget(dead);
            core::mem::forget(st);
        }
    };
}

//@ {"p":"C18","tier":"quick","clause":"next_broadcastable from an arbitrary well-formed 2-transaction state, empty dead set: the offered id is Proved, every dependency is Mined, its scheduled height is due at the effective target, it is not expired at the effective target, and it carries no broadcast-failure report; among eligible rows the earliest scheduled (ties by id) is offered; an eligible row is never withheld","bounds":"2 transactions (two transfers, prep->transfer, or a transfer with a dangling dependency id; symbolic), every lifecycle state, all heights/expiries/marks/reports symbolic in u32, all 7 statuses, scanned and estimated targets symbolic","covers":4,"t":1200,"unwindset":{"memcmp.0":34}}
broadcast_guard!(c18_broadcast_guard_none, false, false);
//@ {"p":"C18","tier":"quick","clause":"same with dead set {tx 1}: a dead row is never offered","bounds":"as above","covers":1,"t":1200,"unwindset":{"memcmp.0":34}}
broadcast_guard!(c18_broadcast_guard_d1, false, true);
//@ {"p":"C18","tier":"quick","clause":"same with dead set {tx 0}","bounds":"as above","covers":2,"t":1200,"unwindset":{"memcmp.0":34}}
broadcast_guard!(c18_broadcast_guard_d0, true, false);
//@ {"p":"C18","tier":"quick","clause":"same with dead set {tx 0, tx 1}: nothing is ever offered","bounds":"as above","covers":1,"t":1200,"unwindset":{"memcmp.0":34}}
broadcast_guard!(c18_broadcast_guard_d01, true, true);

fn stub_dead_set(_s: &MigrationState, _t: DuenessTargets) -> BTreeSet<MigrationTransferId> {
    BTreeSet::new()
}
fn stub_next_broadcastable(
    _s: &MigrationState,
    _t: DuenessTargets,
    _dead: &BTreeSet<MigrationTransferId>,
    _set_aside: &[MigrationTransferId],
) -> Option<MigrationTransferId> {
    // a deterministic function of the state that the harness can recompute (no statics: see the
    // C16 note on spurious dealloc failures): "tx 0 is scheduled at an even height" => Some(id 7)
    if u32::from(_s.transactions()[0].scheduled_height()) % 2 == 0 {
        Some(id(7))
    } else {
        None
    }
}
fn stub_provable(
    _s: &MigrationState,
    _t: DuenessTargets,
    _dead: &BTreeSet<MigrationTransferId>,
    _set_aside: &[MigrationTransferId],
) -> Vec<zcash_pool_migration::state::ProveTarget> {
    Vec::new()
}
fn stub_rebuildable(
    _s: &MigrationState,
    _t: DuenessTargets,
    _dead: &BTreeSet<MigrationTransferId>,
    _set_aside: &[MigrationTransferId],
) -> Option<MigrationTransferId> {
    if kani::any() {
        Some(id(kani::any()))
    } else {
        None
    }
}

//@ {"p":"C18","tier":"quick","clause":"next_step offers Broadcast{id} exactly when the migration is not terminal and next_broadcastable returned Some(id) (a due broadcast preempts every other step; no other step kind is turned into a broadcast); a terminal migration is never driven (Complete)","bounds":"arbitrary 2-transaction state and targets; arbitrary answers of the stubbed helpers","assume":"stubs: MigrationState::{dead_set (empty), next_broadcastable (a fixed function of the state the harness recomputes), provable_targets (empty), next_rebuildable (arbitrary Option<id>)}","covers":2,"t":1200,"stub":true,"unwindset":{"memcmp.0":34}}
#[kani::proof]
#[kani::stub(zcash_pool_migration::engine::MigrationState::dead_set, stub_dead_set)]
#[kani::stub(zcash_pool_migration::engine::MigrationState::next_broadcastable, stub_next_broadcastable)]
#[kani::stub(zcash_pool_migration::engine::MigrationState::provable_targets, stub_provable)]
#[kani::stub(zcash_pool_migration::engine::MigrationState::next_rebuildable, stub_rebuildable)]
#[kani::unwind(5)]
fn c18_step_priority() {
    let (r0, r1) = (any_row(), any_row());
    let status = any_status();
    let st = mk_state(status, false, &r0, &r1);
    let (scanned, est): (u32, u32) = (kani::any(), kani::any());
    let step = hk::next_step(&st, DuenessTargets::new(bh(scanned), bh(est)), &[]);
    if status.is_terminal() {
        assert!(matches!(step, AdvanceStep::Complete));
        kani::cover!(status == MigrationStatus::Cancelled);
    }
    let offered = r0.sched % 2 == 0; // what the stubbed next_broadcastable answers
    match &step {
        AdvanceStep::Broadcast { id: g } => {
            assert!(!status.is_terminal() && offered && u32::from(*g) == 7);
            kani::cover!(true);
        }
        _ => assert!(status.is_terminal() || !offered),
    }
    core::mem::forget(step);
    core::mem::forget(st);
}

//@ {"p":"C18","tier":"quick","clause":"every public mutator, applied to an arbitrary well-formed state, moves each transaction only forward through AwaitingSignature->Signed->Proved->Broadcast->Mined (mark_broadcast is applied to an eligible Proved row as the drive API prescribes), except truncate_to_height(h) which turns exactly the rows mined above h into Broadcast (same txid) and touches no other lifecycle state; Failed/Superseded/Cancelled are never left; Complete is left only by a rollback that un-mines a row; after recompute_status a live migration is Complete iff every row is mined; the representation invariant is preserved","bounds":"2 transactions, all states/heights/marks/statuses symbolic; one mutator call with symbolic arguments","covers":4,"t":2400,"unwindset":{"memcmp.0":34}}
#[kani::proof]
#[kani::unwind(5)]
fn c18_mutators_one_step() {
    let (r0, r1) = (any_row(), any_row());
    let dep: bool = kani::any();
    let status = any_status();
    let mut st = mk_state(status, dep, &r0, &r1);
    let before = [st.transactions()[0].state(), st.transactions()[1].state()];
    let which: u8 = kani::any();
    kani::assume(which < 8);
    let target: u32 = kani::any();
    kani::assume(target <= 2); // ids 0, 1 and one unknown id
    let h: u32 = kani::any();
    let tgt_row = if target == 0 { Some(r0) } else if target == 1 { Some(r1) } else { None };
    match which {
        0 => {
            // mark_broadcast as prescribed: on a Proved row (what next_step offers)
            kani::assume(matches!(tgt_row, Some(r) if r.st == 2) || target == 2);
            st.mark_broadcast(id(target));
        }
        1 => st.mark_mined(id(target), bh(h)),
        2 => st.truncate_to_height(bh(h)),
        3 => st.report_broadcast_failure(id(target), bh(h)),
        4 => st.mark_cancelled(),
        5 => st.mark_superseded(),
        6 => st.recompute_status(),
        _ => {
            let applied = st.apply_signature(id(target), Vec::new());
            assert!(applied == matches!(tgt_row, Some(r) if r.st == 0));
        }
    }
    let after = [st.transactions()[0].state(), st.transactions()[1].state()];
    let rows = [r0, r1];
    let mut i = 0;
    while i < 2 {
        if which == 2 {
            // rollback: exactly the rows mined above h become Broadcast, with the same txid
            if rows[i].st == 4 && rows[i].mined_h > h {
                assert!(after[i] == MigrationTxState::Broadcast { txid: txid_of(i as u32) });
            } else {
                assert!(after[i] == before[i]);
            }
        } else {
            assert!(rank(&after[i]) >= rank(&before[i]));
            if i as u32 != target {
                assert!(after[i] == before[i]); // a mutator only touches the row it names
            }
        }
        // invariant preserved: in-flight and mined rows carry the row's own txid
        match after[i] {
            MigrationTxState::Broadcast { txid } | MigrationTxState::Mined { txid, .. } => {
                assert!(txid == txid_of(i as u32))
            }
            _ => {}
        }
        assert!(st.transactions()[i].id() == id(i as u32));
        i += 1;
    }
    // terminal statuses
    let s2 = st.status();
    match status {
        MigrationStatus::Failed | MigrationStatus::Superseded | MigrationStatus::Cancelled => assert!(s2 == status),
        MigrationStatus::Complete => {
            let unmined = rank(&after[0]) != 4 || rank(&after[1]) != 4;
            assert!(s2 == MigrationStatus::Complete || (which == 2 && unmined && s2 == MigrationStatus::InProgress));
        }
        _ => {
            if which == 6 || which == 0 || which == 1 {
                let all_mined = rank(&after[0]) == 4 && rank(&after[1]) == 4;
                assert!((s2 == MigrationStatus::Complete) == all_mined);
            }
        }
    }
    kani::cover!(which == 2 && rows[0].st == 4 && rows[0].mined_h > h && rows[1].st == 4 && rows[1].mined_h <= h);
    kani::cover!(which == 1 && s2 == MigrationStatus::Complete && status == MigrationStatus::InProgress);
    kani::cover!(which == 0 && target == 1 && rank(&after[1]) == 3);
    kani::cover!(which == 4 && s2 == MigrationStatus::Cancelled);
    core::mem::forget(st);
}

// ---------------------------------------------------------------------------------------------
// The dead set is a TRANSITIVE closure: a transaction two layers behind a source that can never
// mine is itself dead. Observed through the public `transaction_statuses` on a three-deep chain
// prep(0) <- prep(1) <- transfer(2) whose shape is concrete and whose source row is symbolic.
// ---------------------------------------------------------------------------------------------
use zcash_pool_migration::state::Blocker;

//@ {"p":"C18","tier":"experimental","why_experimental":"symex did not finish in 1800 s (BTreeSet collect + sort inside dead_set)","clause":"transitive dead set on a 3-deep dependency chain: the transfer at the end of the chain is reported Unsatisfiable iff the source preparation can never mine (unmined and either marked or expired at the scanned target) or the middle one can not; a dead chain is never reported ready to broadcast","bounds":"chain prep(0) <- prep(1) <- transfer(2) (concrete shape); source row: lifecycle state, expiry, mark symbolic; middle and last rows Signed / Proved symbolic; scanned and estimated targets symbolic","covers":3,"t":1800,"unwindset":{"collections::btree.*":3,"core::slice::sort.*":4,"fn:core::slice::sort":2,"memcmp.0":34}}
#[kani::proof]
#[kani::unwind(5)]
fn c18_dead_set_is_transitive() {
    let r0 = any_row();
    let mut r1 = any_row();
    let mut r2 = any_row();
    // middle and last rows: not yet broadcast, unmarked, never expiring, unreported
    kani::assume(r1.st == 1 || r1.st == 2);
    kani::assume(r2.st == 1 || r2.st == 2);
    r1.unsat = None;
    r1.fail = None;
    r1.expiry = 0;
    r2.unsat = None;
    r2.fail = None;
    r2.expiry = 0;
    let t0 = mk_tx(0, MigrationTxKind::Preparation { layer: 0, index: 0 }, Vec::new(), &r0);
    let t1 = mk_tx(1, MigrationTxKind::Preparation { layer: 1, index: 0 }, vec![id(0)], &r1);
    let t2 = mk_tx(2, MigrationTxKind::Transfer { crossing: 0 }, vec![id(1)], &r2);
    let den = DenominationPlan::from_stored_parts(vec![z(20_000_000)], z(15_000), None, Zatoshis::ZERO, z(20_015_000), z(20_000_000)).unwrap();
    let st = MigrationState::from_parts(
        MigrationStatus::InProgress,
        den,
        PreparationPlan::from_parts(Vec::new(), Vec::new()),
        vec![t0, t1, t2],
        AnchorBucketInterval::ZIP_318,
        ReplanThreshold::DEFAULT,
    );
    let (scanned, est): (u32, u32) = (kani::any(), kani::any());
    let statuses = st.transaction_statuses(DuenessTargets::new(bh(scanned), bh(est)));
    assert!(statuses.len() == 3);
    let source_dead = r0.st != 4 && (r0.unsat.is_some() || expired_at(&r0, scanned));
    let last = &statuses[2];
    assert!((last.blocked_on() == Some(Blocker::Unsatisfiable)) == source_dead);
    assert!((statuses[1].blocked_on() == Some(Blocker::Unsatisfiable)) == source_dead);
    if source_dead {
        assert!(!last.ready() && last.action().is_none());
    }
    kani::cover!(source_dead && r0.unsat.is_none());
    kani::cover!(!source_dead && r0.st == 3);
    kani::cover!(source_dead && r0.st == 3 && r2.st == 2);
    core::mem::forget(statuses);
    core::mem::forget(st);
}
