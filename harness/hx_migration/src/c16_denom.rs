//! C16 — pool-migration denomination plans are canonical and conserve value.
use core::cell::Cell;
use core::num::NonZeroUsize;
use rand_core::{CryptoRng, Error, RngCore};
use zcash_pool_migration::denomination::{plan_denominations, DenominationPlan};
use zcash_pool_migration::preparation::FUNDING_OUTPUTS_PER_TX;
use zcash_pool_migration::verif_hooks as hk;
use zcash_protocol::value::{Zatoshis, MAX_MONEY};
use zcash_protocol::zip318;

/// The 19 canonical ZIP 318 crossing denominations: {1,2,5}*10^k zatoshi in [0.01, 10000] ZEC.
const TABLE: [u64; 19] = [
    1_000_000, 2_000_000, 5_000_000, 10_000_000, 20_000_000, 50_000_000, 100_000_000, 200_000_000,
    500_000_000, 1_000_000_000, 2_000_000_000, 5_000_000_000, 10_000_000_000, 20_000_000_000,
    50_000_000_000, 100_000_000_000, 200_000_000_000, 500_000_000_000, 1_000_000_000_000,
];
fn in_table(v: u64) -> bool {
    // written without a loop so that the plan harnesses need no unwinding for it
    matches!(
        v,
        1_000_000
            | 2_000_000
            | 5_000_000
            | 10_000_000
            | 20_000_000
            | 50_000_000
            | 100_000_000
            | 200_000_000
            | 500_000_000
            | 1_000_000_000
            | 2_000_000_000
            | 5_000_000_000
            | 10_000_000_000
            | 20_000_000_000
            | 50_000_000_000
            | 100_000_000_000
            | 200_000_000_000
            | 500_000_000_000
            | 1_000_000_000_000
    )
}
fn table_floor(hi: u64) -> u64 {
    // largest table entry <= hi, or 0
    let mut i = 0;
    let mut r = 0;
    while i < 19 {
        if TABLE[i] <= hi {
            r = TABLE[i];
        }
        i += 1;
    }
    r
}

//@ {"p":"C16","tier":"quick","clause":"is_canonical_denomination(v) iff v is one of the 19 values {1,2,5}*10^k in [10^6, 10^12] (constant table)","bounds":"all Zatoshis","covers":2,"t":900,"unwind":21}
#[kani::proof]
#[kani::unwind(21)]
fn c16_is_canonical_vs_table() {
    let v: u64 = kani::any();
    kani::assume(v <= MAX_MONEY);
    let got = zip318::is_canonical_denomination(Zatoshis::from_u64(v).unwrap());
    assert!(got == in_table(v));
    kani::cover!(got && v == 500_000_000_000);
    kani::cover!(!got && v == 5);
}

//@ {"p":"C16","tier":"quick","clause":"largest_one_two_five(hi, 10^6) for hi <= 10^12 is the largest table entry <= hi (0 if hi < 10^6); this is the range the planner calls it in (affordable <= DENOM_CAP)","bounds":"all hi in [0, 10^12]","covers":2,"t":900,"unwind":21}
#[kani::proof]
#[kani::unwind(21)]
fn c16_largest_125_vs_table() {
    let hi: u64 = kani::any();
    kani::assume(hi <= 1_000_000_000_000);
    let got = zip318::largest_one_two_five(hi, 1_000_000);
    assert!(got == table_floor(hi));
    kani::cover!(got == 1_000_000_000_000);
    kani::cover!(got == 0 && hi > 0);
}

/// A generator that must never be asked for randomness: the plan then cannot depend on it.
struct NoRng;
impl RngCore for NoRng {
    fn next_u32(&mut self) -> u32 {
        panic!("NEVER: the denomination planner drew randomness")
    }
    fn next_u64(&mut self) -> u64 {
        panic!("NEVER: the denomination planner drew randomness")
    }
    fn fill_bytes(&mut self, _dest: &mut [u8]) {
        panic!("NEVER: the denomination planner drew randomness")
    }
    fn try_fill_bytes(&mut self, _dest: &mut [u8]) -> Result<(), Error> {
        panic!("NEVER: the denomination planner drew randomness")
    }
}
impl CryptoRng for NoRng {}

fn z(v: u64) -> Zatoshis {
    Zatoshis::from_u64(v).unwrap()
}

// The whole-planner harness (plan_denominations with a symbolic oracle in one piece) needed more
// than 30 GB in the SAT solver. The claim is therefore assembled assume-guarantee style:
//   (1) c16_split_cap*: `unconstrained_split` (through the verif hook) GUARANTEES a canonical,
//       non-increasing list of at most `cap` values whose optimistic cost fits the balance, ...
//   (2) c16_plan_cap*: `plan` (reconcile loop, fee accounting, change) is decided with
//       `unconstrained_split` replaced by a stub returning ANY list with guarantee (1).


macro_rules! split_cap {
    ($name:ident, $cap:expr, $maxfee:expr, $unw:expr) => {
        #[kani::proof]
        #[kani::unwind($unw)]
        fn $name() {
            const CAP: usize = $cap;
            let total: u64 = kani::any();
            let buffer: u64 = kani::any();
            let fee: u64 = kani::any();
            let count: usize = kani::any();
            kani::assume(total <= MAX_MONEY && buffer <= MAX_MONEY && fee <= $maxfee);
            let split = hk::unconstrained_split(NonZeroUsize::new(CAP).unwrap(), z(buffer), total, count, fee);
            let n = split.len();
            assert!(n <= CAP);
            let mut sum: u64 = 0;
            let mut i = 0;
            while i < n {
                assert!(in_table(split[i]));
                if i > 0 {
                    assert!(split[i - 1] >= split[i]);
                }
                sum += split[i] + buffer;
                i += 1;
            }
            let exact = count == 1 && total >= buffer && in_table(total - buffer);
            if exact {
                // a single note holding exactly a canonical denomination plus its buffer crosses whole
                assert!(n == 1 && split[0] == total - buffer);
            } else {
                // the optimistic cost (one preparation fee per started group of 14 notes) fits
                let opt = (n.div_ceil(FUNDING_OUTPUTS_PER_TX) as u64) * fee;
                assert!(sum.checked_add(opt).is_some_and(|c| c <= total));
                // greedy: the first value is the largest canonical value that fits with its fee
                if n > 0 {
                    let first_cost = |c: u64| c + buffer + fee;
                    let mut t = 0;
                    while t < 19 {
                        if TABLE[t] > split[0] {
                            assert!(first_cost(TABLE[t]) > total);
                        }
                        t += 1;
                    }
                }
                // stopping short of the cap leaves less than the smallest self-funding note + a fee
                if n < CAP {
                    assert!(total - sum - opt < 1_000_000 + buffer + fee);
                }
            }
            kani::cover!(n == CAP && !exact);
            kani::cover!(exact && total > 1_000_000_000);
            kani::cover!(n == 0 && total > 1_000_000);
            core::mem::forget(split);
        }
    };
}

//@ {"p":"C16","tier":"quick","clause":"unconstrained_split, cap 1: values canonical (19-entry table), non-increasing, at most cap; a single note holding exactly denomination+buffer crosses whole; otherwise the optimistic cost (notes + one fee per started 14) fits the balance, the first value is the largest canonical value affordable with its fee, and stopping short of the cap leaves less than 10^6 + buffer + fee","bounds":"cap 1; balance, buffer in [0,MAX_MONEY]; fee <= 10^6 (bounds the step-down loop, checked by the unwinding assertion); note count symbolic","covers":3,"t":1800,"unwindset":{"CanonicalOneTwoFive::unconstrained_split.1":2,"CanonicalOneTwoFive::unconstrained_split.0":4,"zip318::largest_one_two_five.0":8,"zip318::largest_one_two_five.1":4,"c16_denom::c16_split_cap1.1":20}}
split_cap!(c16_split_cap1, 1, 1_000_000, 4);
//@ {"p":"C16","tier":"experimental","why_experimental":"propositional reduction runs out of memory at 26 GB (64-bit multiplications/divisions per note)","clause":"same, cap 2 (needs more than 16 GB)","bounds":"cap 2; as above","covers":3,"t":3600,"unwindset":{"CanonicalOneTwoFive::unconstrained_split.1":3,"CanonicalOneTwoFive::unconstrained_split.0":4,"zip318::largest_one_two_five.0":8,"zip318::largest_one_two_five.1":4,"c16_denom::c16_split_cap2.1":20}}
split_cap!(c16_split_cap2, 2, 1_000_000, 5);
//@ {"p":"C16","tier":"experimental","why_experimental":"propositional reduction runs out of memory at 26 GB (64-bit multiplications/divisions per note)","clause":"same, cap 3","bounds":"cap 3; as above","covers":3,"t":7200,"unwindset":{"CanonicalOneTwoFive::unconstrained_split.1":4,"CanonicalOneTwoFive::unconstrained_split.0":4,"zip318::largest_one_two_five.0":8,"zip318::largest_one_two_five.1":4,"c16_denom::c16_split_cap3.1":20}}
split_cap!(c16_split_cap3, 3, 1_000_000, 6);

// Stubs for `CanonicalOneTwoFive::unconstrained_split`: ANY canonical, non-increasing list of one
// fixed LENGTH whose notes (value + buffer) fit the balance - the guarantee decided by
// c16_split_cap*. That is a SUPERSET of what the real function can return, so whatever the plan
// harnesses prove over the stub holds over the real split. One straight-line function per length: a
// Vec whose length is symbolic made `plan()`'s per-iteration `collect()` of the typed notes exhaust
// 30 GB in CBMC's propositional reduction; a stub branching on the length, or any harness that
// writes a `static`, produced spurious __rust_dealloc precondition failures (bisected: with the
// static write removed the same harness is clean), so the stubs take no input from the harness:
// they read the buffer out of the strategy object they are handed (buffer_of).
type Strat = zcash_pool_migration::denomination::CanonicalOneTwoFive;
/// The strategy's fee buffer, read out of the (private) struct the stub is handed: the struct is
/// four 8-byte words {max_notes = 64, max = 10^12, min = 10^6, buffer}; the word that is none of the
/// three known constants is the buffer (if the buffer happens to equal one of them, so be it: any
/// of the equal words is the right value).
fn buffer_of(s: &Strat) -> u64 {
    let w: [u64; 4] = unsafe { core::mem::transmute_copy(s) };
    // straight-line (no loop to unwind): remove one occurrence each of 64, 10^12 and 10^6
    let known = |v: u64| v == 64 || v == 1_000_000_000_000 || v == 1_000_000;
    if !known(w[0]) {
        w[0]
    } else if !known(w[1]) {
        w[1]
    } else if !known(w[2]) {
        w[2]
    } else if !known(w[3]) {
        w[3]
    } else {
        // the buffer equals one of the constants: it is the value that occurs twice
        let (a, b, c, d) = (w[0], w[1], w[2], w[3]);
        if a == b || a == c || a == d {
            a
        } else if b == c || b == d {
            b
        } else {
            c
        }
    }
}
fn any_desc3() -> (u64, u64, u64) {
    let (i0, i1, i2): (usize, usize, usize) = (kani::any(), kani::any(), kani::any());
    kani::assume(i0 <= 18 && i1 <= i0 && i2 <= i1);
    (TABLE[i0], TABLE[i1], TABLE[i2])
}
fn split_stub_len0(_s: &Strat, _total: u64, _count: usize, _fee: u64) -> Vec<u64> {
    Vec::new()
}
fn split_stub_len1(s: &Strat, total: u64, _count: usize, _fee: u64) -> Vec<u64> {
    let b = buffer_of(s);
    let (c0, _, _) = any_desc3();
    kani::assume(c0 + b <= total); // guarantee (1): the notes fit the balance
    vec![c0]
}
fn split_stub_len2(s: &Strat, total: u64, _count: usize, _fee: u64) -> Vec<u64> {
    let b = buffer_of(s);
    let (c0, c1, _) = any_desc3();
    kani::assume(c0 + b + c1 + b <= total);
    vec![c0, c1]
}
fn split_stub_len3(s: &Strat, total: u64, _count: usize, _fee: u64) -> Vec<u64> {
    let b = buffer_of(s);
    let (c0, c1, c2) = any_desc3();
    kani::assume(c0 + b + c1 + b + c2 + b <= total);
    vec![c0, c1, c2]
}

macro_rules! plan_cap {
    ($name:ident, $cap:expr, $stub:ident, $maxfee:expr, $maxn:expr, $unw:expr) => {
        #[kani::proof]
        #[kani::stub(zcash_pool_migration::denomination::strategies::CanonicalOneTwoFive::unconstrained_split, $stub)]
        #[kani::unwind($unw)]
        fn $name() {
            const CAP: usize = $cap; // here: the exact length of the (stubbed) canonical split
            let total: u64 = kani::any();
            let buffer: u64 = kani::any();
            let fee: u64 = kani::any();
            let count: usize = kani::any();
            kani::assume(total <= MAX_MONEY && buffer <= MAX_MONEY && fee <= $maxfee);
            // the oracle: a fresh arbitrary answer on every call (refusing, over-charging and
            // inconsistent all at once); the harness remembers the last answer and the call count
            let last: Cell<Option<usize>> = Cell::new(None);
            let calls: Cell<u32> = Cell::new(0);
            let oracle = |_notes: &[Zatoshis]| -> Option<usize> {
                let a: Option<usize> = if kani::any() {
                    let n: usize = kani::any();
                    kani::assume(n <= $maxn);
                    Some(n)
                } else {
                    None
                };
                last.set(a);
                calls.set(calls.get() + 1);
                a
            };
            let mut rng = NoRng;
            let p: DenominationPlan = plan_denominations(
                z(total),
                count,
                NonZeroUsize::new(64).unwrap(),
                z(buffer),
                z(fee),
                &oracle,
                &mut rng,
            );
            let cv = p.crossing_values();
            let n = cv.len();
            assert!(n <= CAP);
            let mut i = 0;
            let mut sum_notes: u64 = 0;
            let mut sum_cross: u64 = 0;
            while i < n {
                let c = cv[i].into_u64();
                // only ever a truncation of the canonical split: canonical and non-increasing
                assert!(in_table(c));
                if i > 0 {
                    assert!(cv[i - 1] >= cv[i]);
                }
                sum_notes += c + buffer;
                sum_cross += c;
                i += 1;
            }
            assert!(p.note_fee_buffer().into_u64() == buffer);
            assert!(p.total_input().into_u64() == total);
            assert!(p.total_migratable().into_u64() == sum_cross);
            // exact conservation
            let change = p.change().map(u64::from).unwrap_or(0);
            let prep = p.prep_fees().into_u64();
            assert!(sum_notes.checked_add(prep).and_then(|x| x.checked_add(change)) == Some(total));
            assert!(p.change() != Some(Zatoshis::ZERO));
            // reserved fees are the per-transaction fee times the accepted answer
            if n == 0 {
                assert!(prep == 0);
            } else {
                let a = last.get();
                assert!(a.is_some());
                assert!((a.unwrap() as u64).checked_mul(fee) == Some(prep));
            }
            // one oracle call per candidate prefix, longest first: n parts survive after
            // (split length - n) refusals
            kani::cover!(n == CAP);
            kani::cover!(n < CAP);
            kani::cover!(n > 0 && calls.get() > 1);
            kani::cover!(n > 0 && change == 0);
            kani::cover!(n > 0 && calls.get() == 1 && prep > 0);
            let outs = p.migration_outputs();
            assert!(outs.len() == n);
            let mut k = 0;
            while k < n {
                assert!(outs[k].into_u64() == cv[k].into_u64() + buffer);
                k += 1;
            }
            core::mem::forget(outs);
            core::mem::forget(p);
        }
    };
}

//@ {"p":"C16","tier":"quick","clause":"plan() over ANY canonical split of length 1 (unconstrained_split stubbed by its guarantee): the published values are a truncation of it (canonical, non-increasing); notes + reserved fees + change == balance exactly; reserved fees == accepted oracle answer x fee; no zero-valued change; migration_outputs = crossing + buffer; the generator is never consulted","bounds":"split length 1; balance, buffer in [0,MAX_MONEY]; fee <= 10^6; note count symbolic; oracle = fresh arbitrary Option<usize> per call, answers <= 2^20 (larger: c16_oracle_overflow)","assume":"stub: unconstrained_split returns an arbitrary length-1 list with the guarantee decided by c16_split_cap*","covers":4,"t":1800,"stub":true,"replay":"model"}
plan_cap!(c16_plan_len1, 1, split_stub_len1, 1_000_000, 1 << 20, 4);
//@ {"p":"C16","tier":"experimental","clause":"same over any canonical split of length 2 (the reconcile loop drops the smallest part and asks again) -- did not finish in 1500 s: after the first pop the Vec length is path dependent","bounds":"split length 2; as above","assume":"stub: unconstrained_split by its guarantee","covers":5,"t":2400,"stub":true,"replay":"model"}
plan_cap!(c16_plan_len2, 2, split_stub_len2, 1_000_000, 1 << 20, 5);
//@ {"p":"C16","tier":"quick","clause":"same for the empty split: an empty plan, change == balance, the oracle is never asked","bounds":"split length 0","assume":"stub: unconstrained_split returns the empty list","covers":1,"t":900,"stub":true,"replay":"model"}
plan_cap!(c16_plan_len0, 0, split_stub_len0, 1_000_000, 1 << 20, 3);
//@ {"p":"C16","tier":"experimental","clause":"same over any canonical split of length 3","bounds":"split length 3; as above","assume":"stub: unconstrained_split by its guarantee","covers":5,"t":7200,"stub":true,"replay":"model"}
plan_cap!(c16_plan_len3, 3, split_stub_len3, 1_000_000, 1 << 20, 6);
//@ {"p":"C16","tier":"thorough","clause":"same, length 1 with an unrestricted preparation fee","bounds":"split length 1; fee in [0,MAX_MONEY]","assume":"stub: unconstrained_split by its guarantee","covers":4,"t":3600,"stub":true,"replay":"model"}
plan_cap!(c16_plan_len1_anyfee, 1, split_stub_len1, MAX_MONEY, 1 << 20, 4);

//@ {"p":"C16","tier":"quick","clause":"an over-charging oracle cannot make the planner panic or mis-account: for ANY answer n (up to usize::MAX), plan_denominations returns a plan; if the part survives, the reserved fees are exactly n x fee (no wrap-around) and notes + fees + change == balance","bounds":"real planner, no stub; balance 1.02015 ZEC, buffer 15000, fee 10000, cap 1, two spendable notes (all concrete so that the split has a concrete length); the oracle's answer is an arbitrary Option<usize>","covers":2,"t":900}
#[kani::proof]
#[kani::unwind(9)]
fn c16_oracle_overflow() {
    const TOTAL: u64 = 102_015_000;
    const FEE: u64 = 10_000;
    let last: Cell<Option<usize>> = Cell::new(None);
    let oracle = |_notes: &[Zatoshis]| -> Option<usize> {
        let a: Option<usize> = if kani::any() { Some(kani::any()) } else { None };
        last.set(a);
        a
    };
    let mut rng = NoRng;
    let p = plan_denominations(z(TOTAL), 2, NonZeroUsize::new(1).unwrap(), z(15_000), z(FEE), &oracle, &mut rng);
    let n = p.crossing_values().len();
    let prep = p.prep_fees().into_u64();
    let change = p.change().map(u64::from).unwrap_or(0);
    assert!(n <= 1);
    if n == 1 {
        let c = p.crossing_values()[0].into_u64();
        assert!(c == 100_000_000);
        assert!((last.get().unwrap() as u64).checked_mul(FEE) == Some(prep));
        assert!(c + 15_000 + prep + change == TOTAL);
        kani::cover!(prep == 2_000_000);
    } else {
        assert!(prep == 0 && change == TOTAL);
        kani::cover!(last.get().is_some());
    }
    core::mem::forget(p);
}
