//! C12 — ZIP 321 grammar kernels through the verif hook: `paramname [ "." paramindex ]` and the
//! duplicate-parameter rule. The reference below is written on bytes, independently of nom.
use zip321::verif_hooks::{has_duplicate_param, indexed_name, ParamDesc};

fn is_alpha(c: u8) -> bool {
    (b'a'..=b'z').contains(&c) || (b'A'..=b'Z').contains(&c)
}
fn is_digit(c: u8) -> bool {
    (b'0'..=b'9').contains(&c)
}

/// ZIP 321: paramname = ALPHA *( ALPHA / DIGIT / "+" / "-" ); paramindex = "." nonzero-digit 0*3DIGIT.
/// Returns (name length, index length if an index is taken). A dot that is not followed by a valid
/// index is left unconsumed.
fn ref_indexed_name(b: &[u8]) -> Option<(usize, Option<usize>)> {
    if b.is_empty() || !is_alpha(b[0]) {
        return None;
    }
    let mut n = 1;
    while n < b.len() && (is_alpha(b[n]) || is_digit(b[n]) || b[n] == b'+' || b[n] == b'-') {
        n += 1;
    }
    if n + 1 < b.len() && b[n] == b'.' && (b'1'..=b'9').contains(&b[n + 1]) {
        let mut d = 0;
        while n + 2 + d < b.len() && is_digit(b[n + 2 + d]) {
            d += 1;
        }
        if d <= 3 {
            return Some((n, Some(1 + d)));
        }
    }
    Some((n, None))
}

/// `<char as Pattern>::is_contained_in` on an ASCII haystack: core takes a byte search for ASCII
/// needles and a UTF-8 substring search (two-way searcher) otherwise; for the ASCII haystacks used by
/// the grammar ("+-" and the qchar set) both are this loop.
fn char_in_ascii(c: char, haystack: &str) -> bool {
    let hb = haystack.as_bytes();
    let mut i = 0;
    let mut found = false;
    while i < hb.len() {
        assert!(hb[i] < 0x80);
        if hb[i] as u32 == c as u32 {
            found = true;
        }
        i += 1;
    }
    found
}

macro_rules! indexed_name_len {
    ($name:ident, $len:expr) => {
        #[kani::proof]
        #[kani::stub(<char as core::str::pattern::Pattern>::is_contained_in, char_in_ascii)]
        #[kani::unwind(18)]
        fn $name() {
            const L: usize = $len;
            let b: [u8; L] = kani::any();
            let mut i = 0;
            while i < L {
                kani::assume(b[i] < 0x80);
                i += 1;
            }
            // SAFETY: every byte is ASCII
            let s: &str = unsafe { core::str::from_utf8_unchecked(&b) };
            let got = indexed_name(s);
            let want = ref_indexed_name(&b);
            match (got, want) {
                (None, None) => {
                    kani::cover!(L > 0);
                }
                (Some((rest, name, idx)), Some((n, ilen))) => {
                    assert!(name.len() == n && name.as_ptr() == s.as_ptr());
                    match (idx, ilen) {
                        (None, None) => {
                            assert!(rest.len() == L - n);
                            kani::cover!(L > n && b[n] == b'.');
                        }
                        (Some(ix), Some(il)) => {
                            assert!(ix.len() == il);
                            assert!(ix.as_ptr() == unsafe { s.as_ptr().add(n + 1) });
                            assert!(rest.len() == L - n - 1 - il);
                            kani::cover!(il == 4);
                            kani::cover!(il == 1 && rest.len() > 0);
                        }
                        _ => panic!("index presence differs from the grammar"),
                    }
                    if rest.len() > 0 {
                        assert!(rest.as_ptr() == unsafe { s.as_ptr().add(L - rest.len()) });
                    }
                }
                _ => panic!("acceptance differs from the grammar"),
            }
        }
    };
}

//@ {"p":"C12","tier":"quick","clause":"parse::indexed_name on an ASCII string: accepts exactly paramname = ALPHA *(ALPHA/DIGIT/+/-), takes an index exactly when the name is followed by '.', a non-zero digit and at most three more digits (no leading zero, at most 9999), otherwise leaves the dot unconsumed; name, index and rest are the exact sub-slices","bounds":"all ASCII strings of length 7","assume":"bytes < 0x80 (from_utf8_unchecked)","covers":3,"t":1200}
indexed_name_len!(c12_indexed_name_7, 7);
//@ {"p":"C12","tier":"quick","clause":"same, end-of-input cases","bounds":"all ASCII strings of length 3","assume":"bytes < 0x80","covers":2,"t":600}
indexed_name_len!(c12_indexed_name_3, 3);
//@ {"p":"C12","tier":"thorough","clause":"same","bounds":"all ASCII strings of length 5","assume":"bytes < 0x80","covers":3,"t":1200}
indexed_name_len!(c12_indexed_name_5, 5);
//@ {"p":"C12","tier":"thorough","clause":"same","bounds":"all ASCII strings of length 9 (name + five-digit index)","assume":"bytes < 0x80","covers":3,"t":2400}
indexed_name_len!(c12_indexed_name_9, 9);

fn ascii2(b: &[u8; 2]) -> &str {
    unsafe { core::str::from_utf8_unchecked(b) }
}

//@ {"p":"C12","tier":"quick","clause":"parse::has_duplicate_param(prev, new) is true exactly when some earlier parameter has the same kind as the new one, where two 'other' parameters are the same kind iff their NAMES are equal (values are irrelevant)","bounds":"2 earlier parameters + the new one, kinds amount/memo/label/message/other symbolic, names 2 symbolic ASCII bytes, values 2 symbolic ASCII bytes","assume":"bytes < 0x80; address parameters not instantiated","covers":3,"t":900,"unwindset":{"memcmp.0":4}}
#[kani::proof]
#[kani::unwind(4)]
fn c12_duplicate_param_rule() {
    let kinds: [u8; 3] = kani::any();
    let names: [[u8; 2]; 3] = kani::any();
    let values: [[u8; 2]; 3] = kani::any();
    let mut i = 0;
    while i < 3 {
        kani::assume(kinds[i] >= 1 && kinds[i] <= 5);
        kani::assume(names[i][0] < 0x80 && names[i][1] < 0x80 && values[i][0] < 0x80 && values[i][1] < 0x80);
        i += 1;
    }
    let d = |i: usize| ParamDesc { kind: kinds[i], name: ascii2(&names[i]), value: ascii2(&values[i]) };
    let prev = [d(0), d(1)];
    let new = d(2);
    let got = has_duplicate_param(&prev, &new);
    let same = |i: usize| kinds[i] == kinds[2] && (kinds[2] != 5 || names[i] == names[2]);
    assert!(got == (same(0) || same(1)));
    kani::cover!(got && kinds[2] == 5 && values[1] != values[2] && !same(0));
    kani::cover!(!got && kinds[0] == 5 && kinds[2] == 5);
    kani::cover!(got && kinds[2] == 2);
}
