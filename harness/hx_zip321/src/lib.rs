//! Kani harnesses over zip321 (C12: parameter-name/index grammar, duplicate detection).
//! See hx_light/src/lib.rs for the `//@` metadata format.
#![allow(dead_code, unused_imports, clippy::all)]

#[cfg(kani)]
mod c12_grammar;
