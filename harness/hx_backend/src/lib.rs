//! Kani harnesses over zcash_client_backend (C05, C06, C07, C15).
//! See hx_light/src/lib.rs for the `//@` metadata format.
#![allow(dead_code, unused_imports, clippy::all)]

#[cfg(kani)]
mod c15_spanning;
#[cfg(kani)]
mod c07_fees;
// c05_scan.rs (scan_block with an empty key set) is NOT compiled: kani-compiler 0.68 hits an internal
// compiler error (intrinsics.rs:243) on code reachable from scan_block. Kept for the record.
#[cfg(kani)]
mod c03_txversion;
