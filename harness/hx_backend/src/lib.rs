//! Kani harnesses over zcash_client_backend (C05, C06, C07, C15).
//! See hx_light/src/lib.rs for the `//@` metadata format.
#![allow(dead_code, unused_imports, clippy::all)]

#[cfg(kani)]
mod c15_spanning;
#[cfg(kani)]
mod c07_fees;
