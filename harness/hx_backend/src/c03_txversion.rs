//! C03 (header layer) — the transaction version header and transparent outpoints are faithful
//! and canonical: every 8-byte (resp. 36-byte) string.
use zcash_primitives::transaction::TxVersion;
use zcash_transparent::bundle::OutPoint;

//@ {"p":"C03","tier":"quick","clause":"TxVersion::read on an arbitrary buffer: accepts exactly {non-overwintered version >= 1} and the four (version, version group id) pairs (3,0x03C48270) (4,0x892F2085) (5,0x26A7270A) (6, V6 group id); consumes 4 resp. 8 bytes; truncated input rejected; whatever it accepts re-serialises to exactly the consumed bytes; header()/version_group_id() agree with the bytes","bounds":"all byte strings of length 0..=8 (complete)","assume":"Err values are mem::forget-ed","covers":4,"t":900}
#[kani::proof]
#[kani::unwind(10)]
fn c03_txversion_all_headers() {
    let buf: [u8; 8] = kani::any();
    let len: usize = kani::any();
    kani::assume(len <= 8);
    let mut rd: &[u8] = &buf[..len];
    let r = TxVersion::read(&mut rd);
    let header = u32::from_le_bytes([buf[0], buf[1], buf[2], buf[3]]);
    let group = u32::from_le_bytes([buf[4], buf[5], buf[6], buf[7]]);
    let overwintered = header >> 31 == 1;
    let version = header & 0x7FFF_FFFF;
    let v6_group = zcash_protocol::constants::V6_VERSION_GROUP_ID;
    let known_pair = (version == 3 && group == 0x03C4_8270)
        || (version == 4 && group == 0x892F_2085)
        || (version == 5 && group == 0x26A7_270A)
        || (version == 6 && group == v6_group);
    let want_ok = if len < 4 {
        false
    } else if overwintered {
        len >= 8 && known_pair
    } else {
        version >= 1
    };
    match r {
        Ok(v) => {
            assert!(want_ok);
            let consumed = len - rd.len();
            assert!(consumed == if overwintered { 8 } else { 4 });
            assert!(v.header() == header);
            if overwintered {
                assert!(v.version_group_id() == group);
            }
            assert!(v.has_overwinter() == overwintered);
            // which sections the format carries (protocol spec 7.1): JoinSplits for every
            // pre-Overwinter version >= 2 and for v3/v4; Sapling from v4; Orchard from v5; Ironwood in v6
            let fmt_version = if overwintered { version } else { 0 };
            assert!(v.has_sprout() == if overwintered { version == 3 || version == 4 } else { version >= 2 });
            assert!(v.has_sapling() == (fmt_version >= 4));
            assert!(v.has_orchard() == (fmt_version >= 5));
            assert!(v.has_ironwood() == (fmt_version >= 6));
            let mut out = [0u8; 8];
            let left = {
                let mut w: &mut [u8] = &mut out;
                let wr = v.write(&mut w);
                assert!(wr.is_ok());
                core::mem::forget(wr);
                w.len()
            };
            assert!(8 - left == consumed);
            let i: usize = kani::any();
            kani::assume(i < consumed);
            assert!(out[i] == buf[i]);
            kani::cover!(matches!(v, TxVersion::V6));
            kani::cover!(matches!(v, TxVersion::Sprout(x) if x == 0x7FFF_FFFF));
        }
        Err(e) => {
            assert!(!want_ok);
            kani::cover!(len == 8 && overwintered && version == 5);
            kani::cover!(len == 4 && header == 0);
            core::mem::forget(e);
        }
    }
}

//@ {"p":"C03","tier":"quick","clause":"OutPoint: read of an arbitrary buffer succeeds iff 36 bytes are available, yields the 32-byte hash and the little-endian index in the buffer, consumes exactly 36 bytes, and write reproduces them","bounds":"all byte strings of length 0..=37","assume":"Err values are mem::forget-ed","covers":2,"t":900}
#[kani::proof]
#[kani::unwind(40)]
fn c03_outpoint_roundtrip() {
    let buf: [u8; 37] = kani::any();
    let len: usize = kani::any();
    kani::assume(len <= 37);
    let mut rd: &[u8] = &buf[..len];
    let r = OutPoint::read(&mut rd);
    match r {
        Ok(o) => {
            assert!(len >= 36 && len - rd.len() == 36);
            assert!(o.n() == u32::from_le_bytes([buf[32], buf[33], buf[34], buf[35]]));
            let i: usize = kani::any();
            kani::assume(i < 32);
            assert!(o.hash()[i] == buf[i]);
            let mut out = [0u8; 36];
            let left = {
                let mut w: &mut [u8] = &mut out;
                let wr = o.write(&mut w);
                assert!(wr.is_ok());
                core::mem::forget(wr);
                w.len()
            };
            assert!(left == 0);
            let j: usize = kani::any();
            kani::assume(j < 36);
            assert!(out[j] == buf[j]);
            kani::cover!(len == 37);
        }
        Err(e) => {
            assert!(len < 36);
            kani::cover!(len == 35);
            core::mem::forget(e);
        }
    }
}

use zcash_transparent::bundle::TxOut;

//@ {"p":"C03","tier":"quick","clause":"TxOut::read on amount || empty script: Ok iff the 8 amount bytes are a value in 0..=MAX_MONEY (as a non-negative i64), never a panic; the value read is that integer; write reproduces the 9 bytes","bounds":"all 8-byte amount fields followed by an empty script (script length byte 0)","assume":"Err values are mem::forget-ed","covers":3,"t":900}
#[kani::proof]
#[kani::unwind(10)]
fn c03_txout_amount_range() {
    let a: [u8; 8] = kani::any();
    let mut buf = [0u8; 9];
    buf[..8].copy_from_slice(&a);
    let mut rd: &[u8] = &buf[..];
    let r = TxOut::read(&mut rd);
    let v = i64::from_le_bytes(a);
    match r {
        Ok(o) => {
            assert!(v >= 0 && v as u64 <= zcash_protocol::value::MAX_MONEY);
            assert!(o.value().into_u64() == v as u64);
            assert!(rd.is_empty());
            let mut out = [0u8; 9];
            let left = {
                let mut w: &mut [u8] = &mut out;
                let wr = o.write(&mut w);
                assert!(wr.is_ok());
                core::mem::forget(wr);
                w.len()
            };
            assert!(left == 0 && out == buf);
            kani::cover!(v as u64 == zcash_protocol::value::MAX_MONEY);
            core::mem::forget(o);
        }
        Err(e) => {
            assert!(v < 0 || v as u64 > zcash_protocol::value::MAX_MONEY);
            kani::cover!(v == -1);
            kani::cover!(v as u64 == zcash_protocol::value::MAX_MONEY + 1);
            core::mem::forget(e);
        }
    }
}
