//! C05 (partial) — compact-block continuity checks and malformed-field handling in `scan_block`,
//! with an empty key set and no tracked nullifiers (no trial decryption runs).
use zcash_client_backend::data_api::BlockMetadata;
use zcash_client_backend::proto::compact_formats::{ChainMetadata, CompactBlock, CompactSaplingSpend, CompactTx};
use zcash_client_backend::scanning::{scan_block, Nullifiers, ScanError, ScanningKeys};
use zcash_primitives::block::BlockHash;
use zcash_protocol::consensus::{BlockHeight, Network};

fn empty_block(height: u64, hash: [u8; 32], prev: [u8; 32], meta: Option<ChainMetadata>) -> CompactBlock {
    CompactBlock {
        height,
        hash: hash.to_vec(),
        prev_hash: prev.to_vec(),
        time: 0,
        header: Vec::new(),
        vtx: Vec::new(),
        chain_metadata: meta,
    }
}

//@ {"p":"C05","tier":"quick","clause":"scan_block on a transaction-less compact block: BlockHeightDiscontinuity iff height != prev+1; else PrevHashMismatch iff the hashes differ; else Ok with the prior tree sizes carried over, or TreeSizeMismatch iff the block's chain metadata disagrees; never a panic","bounds":"empty block; height, hashes (first byte), prior height, prior tree sizes, metadata presence and values symbolic","covers":3,"t":1200}
#[kani::proof]
#[kani::unwind(34)]
fn c05_continuity_empty_block() {
    let height: u32 = kani::any();
    let prev_h: u32 = kani::any();
    let (hb, pb, mb): (u8, u8, u8) = (kani::any(), kani::any(), kani::any());
    let (mut hash, mut prev, mut mhash) = ([1u8; 32], [2u8; 32], [2u8; 32]);
    hash[0] = hb;
    prev[0] = pb;
    mhash[0] = mb;
    let (s, o, i): (u32, u32, u32) = (kani::any(), kani::any(), kani::any());
    let meta = if kani::any() {
        Some(ChainMetadata {
            sapling_commitment_tree_size: kani::any(),
            orchard_commitment_tree_size: kani::any(),
            ironwood_commitment_tree_size: kani::any(),
        })
    } else {
        None
    };
    let block = empty_block(height as u64, hash, prev, meta.clone());
    let prior = BlockMetadata::from_parts(BlockHeight::from_u32(prev_h), BlockHash(mhash), Some(s), Some(o), Some(i));
    let r = scan_block(&Network::TestNetwork, block, &ScanningKeys::<u32, u32>::empty(), &Nullifiers::empty(), Some(&prior));
    let connects = prev_h != u32::MAX && height == prev_h + 1;
    match r {
        Err(ScanError::BlockHeightDiscontinuity { .. }) => {
            assert!(!connects);
            kani::cover!(height == prev_h);
        }
        Err(ScanError::PrevHashMismatch { .. }) => {
            assert!(connects && pb != mb);
            kani::cover!(true);
        }
        Err(ScanError::TreeSizeMismatch { .. }) => {
            assert!(connects && pb == mb);
            let m = meta.unwrap();
            assert!(m.sapling_commitment_tree_size != s || m.orchard_commitment_tree_size != o || m.ironwood_commitment_tree_size != i);
        }
        Err(_) => assert!(false, "unexpected error kind for an empty block"),
        Ok(b) => {
            assert!(connects && pb == mb);
            if let Some(m) = meta {
                assert!(m.sapling_commitment_tree_size == s && m.orchard_commitment_tree_size == o && m.ironwood_commitment_tree_size == i);
            }
            assert!(b.height() == BlockHeight::from_u32(height));
            kani::cover!(true);
            core::mem::forget(b);
        }
    }
}
