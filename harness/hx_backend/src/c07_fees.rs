//! C07 — fee and change computation conserves value and pays the ZIP 317 fee.
use core::convert::Infallible;
use zcash_client_backend::data_api::anchor_retention::{AnchorRetentionInterval, PoolMigrationParams};
use zcash_client_backend::data_api::wallet::TargetHeight;
use zcash_client_backend::fees::{
    orchard as orchard_fees, sapling as sapling_fees, zip317::SingleOutputChangeStrategy, ChangeError,
    ChangeStrategy, ChangeValue, DustAction, DustOutputPolicy,
};
use zcash_primitives::transaction::fees::transparent::InputSize;
use zcash_primitives::transaction::fees::zip317::{FeeError, FeeRule as Zip317FeeRule};
use zcash_primitives::transaction::fees::FeeRule as _;
use zcash_protocol::consensus::{BlockHeight, Network, MAIN_NETWORK};
use zcash_protocol::value::{Zatoshis, MAX_MONEY};
use zcash_protocol::{PoolType, ShieldedPool};
use zcash_transparent::bundle::TxOut;

fn z(v: u64) -> Zatoshis {
    Zatoshis::from_u64(v).unwrap()
}
fn any_zat() -> Zatoshis {
    let v: u64 = kani::any();
    kani::assume(v <= MAX_MONEY);
    z(v)
}

/// ZIP 317: marginal fee x max(grace, logical actions), in 128-bit arithmetic.
fn zip317_reference(t_in: u128, t_out: u128, s_in: u128, s_out: u128, orchard: u128, ironwood: u128) -> u128 {
    let ceil = |a: u128, b: u128| (a + b - 1) / b;
    let logical = ceil(t_in, 150).max(ceil(t_out, 34)) + s_in.max(s_out) + orchard + ironwood;
    5000 * logical.max(2)
}

//@ {"p":"C07","tier":"quick","clause":"zip317::FeeRule::standard().fee_required == 5000 * max(2, max(ceil(sum_in_sizes/150), ceil(sum_out_sizes/34)) + max(sapling_in, sapling_out) + orchard + ironwood); Ok iff that is <= MAX_MONEY, else Err(Balance(Overflow))","bounds":"2 transparent inputs and 2 outputs with symbolic sizes <= 2^20 each; Sapling/Orchard/Ironwood counts symbolic <= 2^40 (so the overflow branch is reachable); any target height","covers":3,"t":900,"unwind":4}
#[kani::proof]
#[kani::unwind(4)]
fn c07_fee_formula() {
    let (a, b, c, d): (usize, usize, usize, usize) = (kani::any(), kani::any(), kani::any(), kani::any());
    kani::assume(a <= 1 << 20 && b <= 1 << 20 && c <= 1 << 20 && d <= 1 << 20);
    let (si, so, oa, ia): (usize, usize, usize, usize) = (kani::any(), kani::any(), kani::any(), kani::any());
    kani::assume(si <= 1 << 40 && so <= 1 << 40 && oa <= 1 << 40 && ia <= 1 << 40);
    let h: u32 = kani::any();
    let r = Zip317FeeRule::standard().fee_required(
        &MAIN_NETWORK,
        BlockHeight::from_u32(h),
        [InputSize::Known(a), InputSize::Known(b)],
        [c, d],
        si,
        so,
        oa,
        ia,
    );
    let want = zip317_reference((a + b) as u128, (c + d) as u128, si as u128, so as u128, oa as u128, ia as u128);
    match r {
        Ok(fee) => {
            assert!(fee.into_u64() as u128 == want);
            kani::cover!(fee.into_u64() == 10_000 && a + b > 150);
            kani::cover!(fee.into_u64() == 15_000 && c + d == 69);
        }
        Err(e) => {
            assert!(want > MAX_MONEY as u128);
            assert!(matches!(e, FeeError::Balance(_)));
            kani::cover!(true);
            core::mem::forget(e);
        }
    }
}

#[derive(Debug)]
struct SapIn(Zatoshis);
impl sapling_fees::InputView<u32> for SapIn {
    fn note_id(&self) -> &u32 {
        &0
    }
    fn value(&self) -> Zatoshis {
        self.0
    }
}

fn any_dust_policy() -> (DustOutputPolicy, DustAction, Option<u64>) {
    let a: u8 = kani::any();
    kani::assume(a < 3);
    let action = match a {
        0 => DustAction::Reject,
        1 => DustAction::AllowDustChange,
        _ => DustAction::AddDustToFee,
    };
    let thr: Option<u64> = if kani::any() {
        let t: u64 = kani::any();
        kani::assume(t <= MAX_MONEY);
        Some(t)
    } else {
        None
    };
    (DustOutputPolicy::new(action, thr.map(z)), action, thr)
}

//@ {"p":"C07","tier":"quick","clause":"SingleOutputChangeStrategy::compute_balance, Sapling 1 input / 1 output: on Ok, inputs == outputs + change + fee exactly; the fee equals the ZIP 317 fee of the final shape (2 Sapling outputs incl. change or padding => 10000) unless dust was folded into it (AddDustToFee: fee - 10000 is the folded change, below the threshold, and no change output remains); no change below the dust threshold unless the policy allows it (zero-valued change always allowed); on InsufficientFunds, available == inputs < required, and inputs really are below outputs + minimum fee or the Reject-dust shortfall applies; never panics","bounds":"1 Sapling input, 1 Sapling output, every value in [0, MAX_MONEY]; dust action and threshold symbolic; target height symbolic (testnet parameters, both sides of every upgrade); anchor height symbolic","covers":4,"t":2400,"unwind":5}
#[kani::proof]
#[kani::unwind(5)]
fn c07_balance_sapling_1x1() {
    let (policy, action, thr) = any_dust_policy();
    let strat = SingleOutputChangeStrategy::<_, Infallible>::new(
        Zip317FeeRule::standard(),
        None,
        ShieldedPool::Sapling,
        policy,
    );
    let (vin, vout) = (any_zat(), any_zat());
    let th: u32 = kani::any();
    let ah: u32 = kani::any();
    let r = strat.compute_balance(
        &Network::TestNetwork,
        TargetHeight::from(BlockHeight::from_u32(th)),
        BlockHeight::from_u32(ah),
        &PoolMigrationParams::new(AnchorRetentionInterval::ZIP_318),
        &[] as &[Infallible],
        &[] as &[TxOut],
        &(sapling::builder::BundleType::DEFAULT, &[SapIn(vin)][..], &[vout][..]),
        &orchard_fees::EmptyBundleView,
        &orchard_fees::EmptyBundleView,
        None,
        &(),
    );
    let (i, o) = (vin.into_u64() as u128, vout.into_u64() as u128);
    let dust_thr = thr.unwrap_or(5000) as u128;
    match r {
        Ok(bal) => {
            let fee = bal.fee_required().into_u64() as u128;
            let ch = bal.proposed_change();
            assert!(ch.len() <= 1);
            let change: u128 = if ch.len() == 1 { ch[0].value().into_u64() as u128 } else { 0 };
            // conservation
            assert!(i == o + change + fee);
            // final shape: 1 spend, outputs padded to 2 => 2 logical actions
            assert!(fee >= 10_000);
            if ch.len() == 1 {
                assert!(fee == 10_000);
                assert!(ch[0].output_pool() == PoolType::SAPLING);
                // dust rule
                if change > 0 && change < dust_thr {
                    assert!(action != DustAction::Reject);
                }
            } else {
                // change output omitted: only by folding dust into the fee
                assert!(action == DustAction::AddDustToFee);
                assert!(fee - 10_000 < dust_thr);
                assert!(fee <= 10_000 + 100_000);
            }
            kani::cover!(ch.len() == 0 && fee > 10_000);
            kani::cover!(ch.len() == 1 && change == 0);
            kani::cover!(ch.len() == 1 && change > 0 && change < dust_thr);
            core::mem::forget(bal);
        }
        Err(ChangeError::InsufficientFunds { available, required }) => {
            let (av, rq) = (available.into_u64() as u128, required.into_u64() as u128);
            assert!(av == i && av < rq);
            // honest: either the inputs do not cover outputs + minimum fee, or the Reject policy
            // refuses a non-zero dust change and asks for exactly the shortfall
            if i >= o + 10_000 {
                let change = i - o - 10_000;
                assert!(action == DustAction::Reject && change > 0 && change < dust_thr);
                assert!(rq == i + (dust_thr - change));
            } else {
                assert!(rq == o + 10_000);
            }
            kani::cover!(i >= o + 10_000);
        }
        Err(e) => {
            // the only other admissible error: an overflowing total (outputs + fee > MAX_MONEY)
            assert!(matches!(e, ChangeError::StrategyError(_)));
            assert!(o + 10_000 > MAX_MONEY as u128 || (action == DustAction::Reject));
            core::mem::forget(e);
        }
    }
}


// ---------------------------------------------------------------------------------------------
// More shapes of the same balance function (each is one harness instance; they run in parallel).
// ---------------------------------------------------------------------------------------------
use zcash_client_backend::fees::TransparentChangePolicy;
use zcash_primitives::transaction::fees::transparent as tfees;
use zcash_protocol::memo::MemoBytes;
use zcash_transparent::address::Script;
use zcash_transparent::bundle::OutPoint;

#[derive(Debug)]
struct TIn {
    outpoint: OutPoint,
    coin: TxOut,
}
impl tfees::InputView for TIn {
    fn outpoint(&self) -> &OutPoint {
        &self.outpoint
    }
    fn coin(&self) -> &TxOut {
        &self.coin
    }
    fn serialized_size(&self) -> InputSize {
        InputSize::STANDARD_P2PKH
    }
}
/// A transparent output that reports the standard P2PKH output size (34 bytes) without carrying
/// a 25-byte script (real scripts made the harness exceed 16 GB).
#[derive(Debug)]
struct TOut {
    value: Zatoshis,
    script: Script,
}
impl tfees::OutputView for TOut {
    fn value(&self) -> Zatoshis {
        self.value
    }
    fn script_pubkey(&self) -> &Script {
        &self.script
    }
    fn serialized_size(&self) -> usize {
        34
    }
}
fn empty_script() -> Script {
    Script(zcash_script::script::Code(Vec::new()))
}

//@ {"p":"C07","tier":"experimental","why_experimental":"CBMC exceeds 34 GB (out of memory) before deciding","clause":"fully transparent transaction, one P2PKH input and TWO P2PKH-sized outputs, transparent change allowed: on Ok inputs == outputs + change + fee; the fee equals the ZIP 317 fee of the FINAL shape - 15000 when a (third) change output is emitted, 10000 when there is none; change is a single transparent output, never zero-valued; InsufficientFunds is honest","bounds":"1 transparent input, 2 transparent outputs, every value in [0, MAX_MONEY]; dust policy symbolic; TransparentChangePolicy::TransparentChangeAllowed; target/anchor heights symbolic","covers":3,"t":3600,"unwind":5}
#[kani::proof]
#[kani::unwind(5)]
fn c07_balance_transparent_1x2() {
    let (policy, action, thr) = any_dust_policy();
    let strat = SingleOutputChangeStrategy::<_, Infallible>::new(Zip317FeeRule::standard(), None, ShieldedPool::Sapling, policy)
        .with_transparent_change_policy(TransparentChangePolicy::TransparentChangeAllowed);
    let (vin, o1, o2) = (any_zat(), any_zat(), any_zat());
    let th: u32 = kani::any();
    let ah: u32 = kani::any();
    let tin = [TIn { outpoint: OutPoint::new([7u8; 32], 0), coin: TxOut::new(vin, empty_script()) }];
    let touts = [TOut { value: o1, script: empty_script() }, TOut { value: o2, script: empty_script() }];
    let r = strat.compute_balance::<_, u32>(
        &Network::TestNetwork,
        TargetHeight::from(BlockHeight::from_u32(th)),
        BlockHeight::from_u32(ah),
        &PoolMigrationParams::new(AnchorRetentionInterval::ZIP_318),
        &tin[..],
        &touts[..],
        &sapling_fees::EmptyBundleView,
        &orchard_fees::EmptyBundleView,
        &orchard_fees::EmptyBundleView,
        None,
        &(),
    );
    let (i, o) = (vin.into_u64() as u128, o1.into_u64() as u128 + o2.into_u64() as u128);
    let dust_thr = thr.unwrap_or(5000) as u128;
    match r {
        Ok(bal) => {
            let fee = bal.fee_required().into_u64() as u128;
            let ch = bal.proposed_change();
            assert!(ch.len() <= 1);
            let change: u128 = if ch.len() == 1 { ch[0].value().into_u64() as u128 } else { 0 };
            assert!(i == o + change + fee);
            if ch.len() == 1 {
                // three outputs => max(1 input, 3 outputs) = 3 logical actions
                assert!(ch[0].output_pool() == PoolType::TRANSPARENT);
                assert!(change > 0);
                assert!(fee == 15_000);
                if change < dust_thr {
                    assert!(action != DustAction::Reject);
                }
            } else {
                // no change output: the 2-output shape costs max(2, 2) * 5000, unless dust was folded
                assert!(fee >= 10_000);
                if fee != 10_000 && fee != 15_000 {
                    assert!(action == DustAction::AddDustToFee);
                }
            }
            kani::cover!(ch.len() == 1 && change == 1);
            kani::cover!(ch.len() == 0 && fee == 10_000);
            core::mem::forget(bal);
        }
        Err(ChangeError::InsufficientFunds { available, required }) => {
            let (av, rq) = (available.into_u64() as u128, required.into_u64() as u128);
            assert!(av == i && av < rq);
            kani::cover!(i >= o + 10_000);
        }
        Err(e) => {
            assert!(matches!(e, ChangeError::StrategyError(_) | ChangeError::DustInputs { .. }));
            core::mem::forget(e);
        }
    }
}

//@ {"p":"C07","tier":"quick","clause":"Sapling 1 input / 1 output WITH a change memo: a change output is always present (it carries the memo); inputs == outputs + change + fee exactly, also when dust is folded into the fee (then the change output is zero-valued and fee - 10000 is the folded dust, below the threshold)","bounds":"1 Sapling input, 1 Sapling output, every value in [0, MAX_MONEY]; dust action and threshold symbolic; empty change memo; heights symbolic","covers":3,"t":3600,"unwind":5}
#[kani::proof]
#[kani::unwind(5)]
fn c07_balance_sapling_1x1_memo() {
    let (policy, action, thr) = any_dust_policy();
    let strat = SingleOutputChangeStrategy::<_, Infallible>::new(
        Zip317FeeRule::standard(),
        Some(MemoBytes::empty()),
        ShieldedPool::Sapling,
        policy,
    );
    let (vin, vout) = (any_zat(), any_zat());
    let th: u32 = kani::any();
    let ah: u32 = kani::any();
    let r = strat.compute_balance(
        &Network::TestNetwork,
        TargetHeight::from(BlockHeight::from_u32(th)),
        BlockHeight::from_u32(ah),
        &PoolMigrationParams::new(AnchorRetentionInterval::ZIP_318),
        &[] as &[Infallible],
        &[] as &[TxOut],
        &(sapling::builder::BundleType::DEFAULT, &[SapIn(vin)][..], &[vout][..]),
        &orchard_fees::EmptyBundleView,
        &orchard_fees::EmptyBundleView,
        None,
        &(),
    );
    let (i, o) = (vin.into_u64() as u128, vout.into_u64() as u128);
    let dust_thr = thr.unwrap_or(5000) as u128;
    match r {
        Ok(bal) => {
            let fee = bal.fee_required().into_u64() as u128;
            let ch = bal.proposed_change();
            assert!(ch.len() == 1); // the memo needs an output to live in
            let change = ch[0].value().into_u64() as u128;
            assert!(ch[0].memo().is_some());
            assert!(i == o + change + fee);
            assert!(fee >= 10_000);
            if fee != 10_000 {
                assert!(action == DustAction::AddDustToFee && change == 0 && fee - 10_000 < dust_thr);
            }
            if change > 0 && change < dust_thr {
                assert!(action == DustAction::AllowDustChange || (action == DustAction::AddDustToFee && fee == 10_000));
            }
            kani::cover!(fee > 10_000);
            kani::cover!(change == 0 && fee == 10_000);
            kani::cover!(change > dust_thr);
            core::mem::forget(bal);
        }
        Err(ChangeError::InsufficientFunds { available, required }) => {
            let (av, rq) = (available.into_u64() as u128, required.into_u64() as u128);
            assert!(av == i && av < rq);
        }
        Err(e) => {
            assert!(matches!(e, ChangeError::StrategyError(_)));
            core::mem::forget(e);
        }
    }
}

//@ {"p":"C07","tier":"thorough","clause":"the same formula with NO bound on sizes and counts: for every usize size and count the result is the exact 128-bit value when that is <= MAX_MONEY and Err(Balance(Overflow)) otherwise - never a panic, never a wrapped (too small) fee","bounds":"2 transparent inputs and 2 outputs, all four sizes and all four counts any usize","covers":3,"t":3600}
#[kani::proof]
#[kani::unwind(4)]
fn c07_fee_formula_full_range() {
    let (a, b, c, d): (usize, usize, usize, usize) = (kani::any(), kani::any(), kani::any(), kani::any());
    let (si, so, oa, ia): (usize, usize, usize, usize) = (kani::any(), kani::any(), kani::any(), kani::any());
    let r = Zip317FeeRule::standard().fee_required(
        &MAIN_NETWORK,
        BlockHeight::from_u32(kani::any()),
        [InputSize::Known(a), InputSize::Known(b)],
        [c, d],
        si,
        so,
        oa,
        ia,
    );
    let want = zip317_reference(a as u128 + b as u128, c as u128 + d as u128, si as u128, so as u128, oa as u128, ia as u128);
    match r {
        Ok(fee) => {
            assert!(fee.into_u64() as u128 == want);
            kani::cover!(fee.into_u64() == 10_000);
        }
        Err(e) => {
            assert!(want > MAX_MONEY as u128);
            assert!(matches!(e, FeeError::Balance(_)));
            kani::cover!(si == usize::MAX && oa == 1);
            kani::cover!(a == usize::MAX && b == usize::MAX);
            core::mem::forget(e);
        }
    }
}


//@ {"p":"C07","tier":"quick","clause":"shielded-only transactions, NO bound on the counts: for every usize Sapling/Orchard/Ironwood count the fee is 5000*max(2, max(s_in,s_out)+orchard+ironwood) exactly when representable and Err(Balance(Overflow)) otherwise - never a panic, never a wrapped (too small) fee","bounds":"no transparent inputs/outputs; all four counts any usize","covers":3,"t":600}
#[kani::proof]
#[kani::unwind(2)]
fn c07_fee_counts_full_range() {
    let (si, so, oa, ia): (usize, usize, usize, usize) = (kani::any(), kani::any(), kani::any(), kani::any());
    let r = Zip317FeeRule::standard().fee_required(
        &MAIN_NETWORK,
        BlockHeight::from_u32(kani::any()),
        core::iter::empty::<InputSize>(),
        core::iter::empty::<usize>(),
        si,
        so,
        oa,
        ia,
    );
    let want = zip317_reference(0, 0, si as u128, so as u128, oa as u128, ia as u128);
    match r {
        Ok(fee) => {
            assert!(fee.into_u64() as u128 == want);
            kani::cover!(fee.into_u64() == 15_000);
        }
        Err(e) => {
            assert!(want > MAX_MONEY as u128);
            assert!(matches!(e, FeeError::Balance(_)));
            kani::cover!(si == usize::MAX && oa == 1);
            kani::cover!(si == 0 && so == 0 && ia == 1 << 40);
            core::mem::forget(e);
        }
    }
}

//@ {"p":"C07","tier":"quick","clause":"transparent sizes whose total does not fit a usize (inputs or outputs): Err(Balance(Overflow)), never a panic or a fee computed from a wrapped total","bounds":"2 inputs and 2 outputs, all usize sizes such that the input total or the output total overflows; counts any usize","covers":2,"t":600}
#[kani::proof]
#[kani::unwind(4)]
fn c07_fee_sizes_overflow_edge() {
    let (a, b, c, d): (usize, usize, usize, usize) = (kani::any(), kani::any(), kani::any(), kani::any());
    kani::assume(a.checked_add(b).is_none() || c.checked_add(d).is_none());
    let r = Zip317FeeRule::standard().fee_required(
        &MAIN_NETWORK,
        BlockHeight::from_u32(kani::any()),
        [InputSize::Known(a), InputSize::Known(b)],
        [c, d],
        kani::any(),
        kani::any(),
        kani::any(),
        kani::any(),
    );
    match r {
        Ok(_) => panic!("a fee was returned although the ZIP 317 fee is not representable"),
        Err(e) => {
            assert!(matches!(e, FeeError::Balance(_)));
            kani::cover!(a.checked_add(b).is_none() && c == 0);
            kani::cover!(c.checked_add(d).is_none() && a == 0 && b == 0);
            core::mem::forget(e);
        }
    }
}
