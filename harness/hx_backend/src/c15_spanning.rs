//! C15 — scan queue priorities follow the dominance rule (the Rust part: spanning_tree).
//!
//! Oracle: the documented rule applied POINTWISE. For a symbolic height h the expected priority
//! after inserting `ins` over `cur` is computed from the two ranges alone; the output of the real
//! code must be a sorted, gap-free, merged partition of the hull whose priority at h is that value.
use zcash_client_backend::data_api::scanning::spanning_tree::SpanningTree;
use zcash_client_backend::data_api::scanning::{ScanPriority, ScanRange};
use zcash_protocol::consensus::BlockHeight;

fn bh(h: u32) -> BlockHeight {
    BlockHeight::from_u32(h)
}
fn any_priority() -> ScanPriority {
    let k: u8 = kani::any();
    kani::assume(k < 7);
    match k {
        0 => ScanPriority::Ignored,
        1 => ScanPriority::Scanned,
        2 => ScanPriority::Historic,
        3 => ScanPriority::OpenAdjacent,
        4 => ScanPriority::FoundNote,
        5 => ScanPriority::ChainTip,
        _ => ScanPriority::Verify,
    }
}
fn rank(p: ScanPriority) -> u8 {
    match p {
        ScanPriority::Ignored => 0,
        ScanPriority::Scanned => 1,
        ScanPriority::Historic => 2,
        ScanPriority::OpenAdjacent => 3,
        ScanPriority::FoundNote => 4,
        ScanPriority::ChainTip => 5,
        ScanPriority::Verify => 6,
    }
}
/// The documented dominance rule for one height covered by both the current and the inserted range.
fn dominate(cur: ScanPriority, ins: ScanPriority, force: bool) -> ScanPriority {
    if cur == ins {
        cur
    } else if ins == ScanPriority::Verify || ins == ScanPriority::Scanned {
        ins
    } else if cur == ScanPriority::Scanned && !force {
        cur
    } else if rank(ins) > rank(cur) {
        ins
    } else {
        cur
    }
}
fn range(s: u32, e: u32, p: ScanPriority) -> ScanRange {
    ScanRange::from_parts(bh(s)..bh(e), p)
}
/// Checks that `v` is a sorted, non-empty-ranged, gap-free, merged partition of [lo, hi) and
/// returns the priority it assigns to `h` (which must lie in [lo, hi)).
fn check_partition(v: &[ScanRange], lo: u32, hi: u32, h: u32) -> ScanPriority {
    assert!(!v.is_empty());
    assert!(u32::from(v[0].block_range().start) == lo);
    assert!(u32::from(v[v.len() - 1].block_range().end) == hi);
    let mut at = ScanPriority::Ignored;
    let mut found = 0;
    let mut i = 0;
    while i < v.len() {
        let (s, e) = (u32::from(v[i].block_range().start), u32::from(v[i].block_range().end));
        assert!(s < e);
        if i > 0 {
            assert!(v[i - 1].block_range().end == v[i].block_range().start);
            assert!(v[i - 1].priority() != v[i].priority());
        }
        if s <= h && h < e {
            at = v[i].priority();
            found += 1;
        }
        i += 1;
    }
    assert!(found == 1);
    at
}

//@ {"p":"C15","tier":"experimental","why_experimental":"out of memory at 14 GB after 950 s","clause":"one insertion into a one-range queue through the public API only (SpanningTree::Leaf(cur).insert(ins, force).into_vec()): output is a sorted, gap-free, merged partition of the hull with non-empty ranges; the priority of every height is the dominance rule applied pointwise (equal keeps; inserted Verify/Scanned overrides; current Scanned sticky unless forced; else the higher priority), only-current / only-inserted heights keep their priority, uncovered heights inside the hull become Historic","bounds":"all non-empty ranges over u32 heights x all 7x7 priorities x both force flags; symbolic probe height (did not finish in 900 s: Vec + recursion; kept as a thorough-tier item)","covers":5,"t":5400,"unwind":6}
#[kani::proof]
#[kani::unwind(6)]
fn c15_leaf_insert_pointwise() {
    let (cs, ce, is, ie): (u32, u32, u32, u32) = (kani::any(), kani::any(), kani::any(), kani::any());
    kani::assume(cs < ce && is < ie);
    let (cp, ip) = (any_priority(), any_priority());
    let force: bool = kani::any();
    let out = SpanningTree::Leaf(range(cs, ce, cp)).insert(range(is, ie, ip), force).into_vec();
    let lo = cs.min(is);
    let hi = ce.max(ie);
    let h: u32 = kani::any();
    kani::assume(lo <= h && h < hi);
    assert!(out.len() <= 3);
    let got = check_partition(&out, lo, hi, h);
    let in_cur = cs <= h && h < ce;
    let in_ins = is <= h && h < ie;
    let want = if in_cur && in_ins {
        dominate(cp, ip, force)
    } else if in_cur {
        cp
    } else if in_ins {
        ip
    } else {
        ScanPriority::Historic
    };
    assert!(got == want);
    kani::cover!(out.len() == 3 && !in_cur && !in_ins);
    kani::cover!(out.len() == 3 && in_cur && in_ins);
    kani::cover!(out.len() == 1 && cp != ip);
    kani::cover!(in_cur && in_ins && got == cp && cp == ScanPriority::Scanned && rank(ip) > 1);
    kani::cover!(in_cur && in_ins && force && cp == ScanPriority::Scanned && got == ip && ip == ScanPriority::Historic);
    core::mem::forget(out);
}

// ---------------------------------------------------------------------------------------------
// Leaf level through the cfg(zcash_librustzcash_verif) hook: no heap, no recursion beyond the
// gap-filling join. Complete for one step.
// ---------------------------------------------------------------------------------------------
use zcash_client_backend::data_api::scanning::spanning_tree::verif_hooks as hk;

fn check_joined(n: usize, v: &[Option<ScanRange>; 3], lo: u32, hi: u32, h: u32) -> ScanPriority {
    assert!(n >= 1 && n <= 3);
    let mut at = ScanPriority::Ignored;
    let mut found = 0;
    let mut i = 0;
    while i < 3 {
        if i < n {
            let r = v[i].as_ref().unwrap();
            let (s, e) = (u32::from(r.block_range().start), u32::from(r.block_range().end));
            assert!(s < e);
            if i == 0 {
                assert!(s == lo);
            } else {
                let p = v[i - 1].as_ref().unwrap();
                assert!(p.block_range().end == r.block_range().start);
                assert!(p.priority() != r.priority());
            }
            if i == n - 1 {
                assert!(e == hi);
            }
            if s <= h && h < e {
                at = r.priority();
                found += 1;
            }
        } else {
            assert!(v[i].is_none());
        }
        i += 1;
    }
    assert!(found == 1);
    at
}

//@ {"p":"C15","tier":"quick","clause":"leaf-level insert(current, to_insert, force) -> Joined: the result is a sorted, gap-free, merged partition of the hull with non-empty ranges, and the priority of every height is the dominance rule applied pointwise (equal keeps; inserted Verify/Scanned overrides; current Scanned sticky unless forced; else the higher priority); heights covered by only one range keep its priority; uncovered heights inside the hull become Historic","bounds":"all non-empty ranges over u32 heights x all 7x7 priorities x both force flags; symbolic probe height (complete for one insertion step)","covers":5,"t":900}
#[kani::proof]
#[kani::unwind(4)]
fn c15_leaf_insert_hook() {
    let (cs, ce, is, ie): (u32, u32, u32, u32) = (kani::any(), kani::any(), kani::any(), kani::any());
    kani::assume(cs < ce && is < ie);
    let (cp, ip) = (any_priority(), any_priority());
    let force: bool = kani::any();
    let (n, v) = hk::insert(range(cs, ce, cp), range(is, ie, ip), force);
    let lo = cs.min(is);
    let hi = ce.max(ie);
    let h: u32 = kani::any();
    kani::assume(lo <= h && h < hi);
    let got = check_joined(n, &v, lo, hi, h);
    let in_cur = cs <= h && h < ce;
    let in_ins = is <= h && h < ie;
    let want = if in_cur && in_ins {
        dominate(cp, ip, force)
    } else if in_cur {
        cp
    } else if in_ins {
        ip
    } else {
        ScanPriority::Historic
    };
    assert!(got == want);
    kani::cover!(n == 3 && !in_cur && !in_ins);
    kani::cover!(n == 3 && in_cur && in_ins);
    kani::cover!(n == 1 && cp != ip);
    kani::cover!(in_cur && in_ins && got == cp && cp == ScanPriority::Scanned && rank(ip) > 1);
    kani::cover!(in_cur && in_ins && force && cp == ScanPriority::Scanned && got == ip && ip == ScanPriority::Historic);
}

//@ {"p":"C15","tier":"quick","clause":"dominance(current, inserted, force) equals the documented rule for all 7x7x2 combinations; join_nonoverlapping(left, right) merges adjacent equal priorities, keeps adjacent different ones, and fills a gap with Historic (merging it into a Historic neighbour)","bounds":"all priorities and flags; all non-empty disjoint ordered ranges over u32","covers":3,"t":600}
#[kani::proof]
#[kani::unwind(4)]
fn c15_dominance_and_join() {
    let (cp, ip) = (any_priority(), any_priority());
    let force: bool = kani::any();
    let d = hk::dominance(cp, ip, force);
    let want = dominate(cp, ip, force);
    if cp == ip {
        assert!(d == 2);
    } else if want == ip {
        assert!(d == 1);
    } else {
        assert!(d == 0);
    }
    let (ls, le, rs, re): (u32, u32, u32, u32) = (kani::any(), kani::any(), kani::any(), kani::any());
    kani::assume(ls < le && le <= rs && rs < re);
    let (n, v) = hk::join_nonoverlapping(range(ls, le, cp), range(rs, re, ip));
    let h: u32 = kani::any();
    kani::assume(ls <= h && h < re);
    let got = check_joined(n, &v, ls, re, h);
    let want = if h < le {
        cp
    } else if h >= rs {
        ip
    } else {
        ScanPriority::Historic
    };
    assert!(got == want);
    kani::cover!(n == 1 && le < rs);
    kani::cover!(n == 3);
    kani::cover!(n == 2 && le < rs);
}

// ---------------------------------------------------------------------------------------------
// Tree level: SpanningTree::insert / into_vec on an arbitrary valid two-leaf tree.
// ---------------------------------------------------------------------------------------------

//@ {"p":"C15","tier":"experimental","why_experimental":"still in symex after 3600 s (recursion + into_vec)","clause":"SpanningTree::insert into an arbitrary valid 2-leaf queue (adjacent ranges, different priorities) followed by into_vec: sorted, gap-free, merged partition of the hull; pointwise priority = dominance rule over whichever existing range covers the height","bounds":"2-leaf tree with symbolic split and priorities, inserted range symbolic; u32 heights","covers":2,"t":3600}
#[kani::proof]
#[kani::unwind(7)]
fn c15_tree_insert_2leaf() {
    let (a, b, c): (u32, u32, u32) = (kani::any(), kani::any(), kani::any());
    kani::assume(a < b && b < c);
    let (p1, p2) = (any_priority(), any_priority());
    kani::assume(p1 != p2);
    let tree = SpanningTree::Parent {
        span: bh(a)..bh(c),
        left: Box::new(SpanningTree::Leaf(range(a, b, p1))),
        right: Box::new(SpanningTree::Leaf(range(b, c, p2))),
    };
    let (is, ie): (u32, u32) = (kani::any(), kani::any());
    kani::assume(is < ie);
    let ip = any_priority();
    let force: bool = kani::any();
    let out = tree.insert(range(is, ie, ip), force).into_vec();
    let lo = a.min(is);
    let hi = c.max(ie);
    let h: u32 = kani::any();
    kani::assume(lo <= h && h < hi);
    let got = check_partition(&out, lo, hi, h);
    let in_ins = is <= h && h < ie;
    let cur = if a <= h && h < b {
        Some(p1)
    } else if b <= h && h < c {
        Some(p2)
    } else {
        None
    };
    let want = match (cur, in_ins) {
        (Some(cp), true) => dominate(cp, ip, force),
        (Some(cp), false) => cp,
        (None, true) => ip,
        (None, false) => ScanPriority::Historic,
    };
    assert!(got == want);
    kani::cover!(out.len() >= 4);
    kani::cover!(out.len() == 1);
    core::mem::forget(out);
}

//@ {"p":"C15","tier":"experimental","why_experimental":"still in symex after 2400 s: the recursion over boxed children does not get through even without into_vec","clause":"SpanningTree::insert into an arbitrary valid 2-leaf queue never panics (every split point handed to the children lies inside the child it is handed to) and the resulting tree spans exactly the hull of the queue and the inserted range","bounds":"2-leaf tree with symbolic split and priorities, inserted range symbolic; u32 heights","covers":2,"t":2400}
#[kani::proof]
#[kani::unwind(7)]
fn c15_tree_insert_2leaf_span() {
    let (a, b, c): (u32, u32, u32) = (kani::any(), kani::any(), kani::any());
    kani::assume(a < b && b < c);
    let (p1, p2) = (any_priority(), any_priority());
    kani::assume(p1 != p2);
    let tree = SpanningTree::Parent {
        span: bh(a)..bh(c),
        left: Box::new(SpanningTree::Leaf(range(a, b, p1))),
        right: Box::new(SpanningTree::Leaf(range(b, c, p2))),
    };
    let (is, ie): (u32, u32) = (kani::any(), kani::any());
    kani::assume(is < ie);
    let ip = any_priority();
    let force: bool = kani::any();
    let out = tree.insert(range(is, ie, ip), force);
    let lo = a.min(is);
    let hi = c.max(ie);
    let span = match &out {
        SpanningTree::Leaf(e) => e.block_range().clone(),
        SpanningTree::Parent { span, .. } => span.clone(),
    };
    assert!(span.start == bh(lo) && span.end == bh(hi));
    kani::cover!(is < a && ie == b);
    kani::cover!(is > a && ie < c && is < b && ie > b);
    core::mem::forget(out);
}
