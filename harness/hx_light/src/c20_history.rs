//! C20 — chain-history tree roots match a from-scratch recomputation.
use zcash_history::{Entry, EntryLink, NodeData, NodeDataV2, NodeDataV3, Tree, Version, V1, V2, V3};

// ---------------------------------------------------------------------------------------------
// (iii) Tree operations against an independent from-scratch MMR, instantiated with a structural
// Version whose combine records (start of left, end of right, an asymmetric mix of both
// children). A wrong shape, a wrong child order or a stale node changes the root.
// ---------------------------------------------------------------------------------------------

#[derive(Debug, Clone, Copy, PartialEq, Eq)]
pub struct SNode {
    start: u64,
    end: u64,
    mix: u64,
}
pub enum SV {}
fn smix(l: &SNode, r: &SNode) -> u64 {
    l.mix.wrapping_mul(0x9E37_79B9_7F4A_7C15).rotate_left(13) ^ r.mix.wrapping_add(0xD1B5_4A32_D192_ED03)
}
impl Version for SV {
    type NodeData = SNode;
    fn consensus_branch_id(_d: &SNode) -> u32 {
        1
    }
    fn start_height(d: &SNode) -> u64 {
        d.start
    }
    fn end_height(d: &SNode) -> u64 {
        d.end
    }
    fn combine(l: &SNode, r: &SNode) -> SNode {
        SNode { start: l.start, end: r.end, mix: smix(l, r) }
    }
    fn combine_inner(_c: [u8; 32], l: &SNode, r: &SNode) -> SNode {
        Self::combine(l, r)
    }
    fn read<R: corez::io::Read>(_b: u32, _r: &mut R) -> corez::io::Result<SNode> {
        unreachable!()
    }
    fn write<W: corez::io::Write>(_d: &SNode, _w: &mut W) -> corez::io::Result<()> {
        unreachable!()
    }
}

/// Independent reference: the array form of a Merkle mountain range built by the textbook rule
/// "append the leaf, then while the two right-most peaks have equal size merge them".
#[derive(Clone, Copy)]
struct RNode {
    data: SNode,
    left: u32,
    right: u32,
    leaf: bool,
    size: u64,
}
const MAXN: usize = 40;
struct RefMmr {
    nodes: [RNode; MAXN],
    len: usize,
    peaks: [u32; 8],
    npeaks: usize,
}
impl RefMmr {
    fn new() -> Self {
        let z = RNode { data: SNode { start: 0, end: 0, mix: 0 }, left: 0, right: 0, leaf: true, size: 0 };
        RefMmr { nodes: [z; MAXN], len: 0, peaks: [0; 8], npeaks: 0 }
    }
    fn append(&mut self, leaf: SNode) {
        self.nodes[self.len] = RNode { data: leaf, left: 0, right: 0, leaf: true, size: 1 };
        self.peaks[self.npeaks] = self.len as u32;
        self.npeaks += 1;
        self.len += 1;
        while self.npeaks >= 2
            && self.nodes[self.peaks[self.npeaks - 1] as usize].size == self.nodes[self.peaks[self.npeaks - 2] as usize].size
        {
            let (l, r) = (self.peaks[self.npeaks - 2], self.peaks[self.npeaks - 1]);
            let (ln, rn) = (self.nodes[l as usize], self.nodes[r as usize]);
            self.nodes[self.len] = RNode {
                data: SNode { start: ln.data.start, end: rn.data.end, mix: smix(&ln.data, &rn.data) },
                left: l,
                right: r,
                leaf: false,
                size: ln.size + rn.size,
            };
            self.npeaks -= 1;
            self.peaks[self.npeaks - 1] = self.len as u32;
            self.len += 1;
        }
    }
    /// Root data: the peaks bagged left to right.
    fn root(&self) -> SNode {
        let mut acc = self.nodes[self.peaks[0] as usize].data;
        let mut i = 1;
        while i < self.npeaks {
            let r = self.nodes[self.peaks[i] as usize].data;
            acc = SNode { start: acc.start, end: r.end, mix: smix(&acc, &r) };
            i += 1;
        }
        acc
    }
    fn entry(&self, idx: u32) -> Entry<SV> {
        let n = self.nodes[idx as usize];
        if n.leaf {
            Entry::new_leaf(n.data)
        } else {
            Entry::new(n.data, EntryLink::Stored(n.left), EntryLink::Stored(n.right))
        }
    }
    /// The minimal partial view: the peaks, plus (for truncation) the children along the right
    /// spine of the last peak.
    fn view(&self, with_spine: bool) -> Tree<SV> {
        let mut peaks = Vec::new();
        let mut i = 0;
        while i < self.npeaks {
            peaks.push((self.peaks[i], self.entry(self.peaks[i])));
            i += 1;
        }
        let mut extra = Vec::new();
        if with_spine {
            let mut cur = self.peaks[self.npeaks - 1];
            while !self.nodes[cur as usize].leaf {
                let (l, r) = (self.nodes[cur as usize].left, self.nodes[cur as usize].right);
                extra.push((l, self.entry(l)));
                extra.push((r, self.entry(r)));
                cur = r;
            }
        }
        Tree::new(self.len as u32, peaks, extra)
    }
}

fn build(n: usize, leaves: &[u64; 17]) -> RefMmr {
    let mut m = RefMmr::new();
    let mut i = 0;
    while i < n {
        m.append(SNode { start: i as u64, end: i as u64, mix: leaves[i] });
        i += 1;
    }
    m
}

macro_rules! mmr_ops {
    ($name:ident, $n:expr, $unw:expr) => {
        #[kani::proof]
        #[kani::unwind($unw)]
        fn $name() {
            const N: usize = $n;
            let leaves: [u64; 17] = kani::any();
            let before = build(N, &leaves);
            let mut after = build(N, &leaves);
            after.append(SNode { start: N as u64, end: N as u64, mix: leaves[N] });
            // append on the minimal partial view (peaks only)
            let mut t = before.view(false);
            assert!(t.len() as usize == before.len);
            assert!(*t.root_node().unwrap().data() == before.root());
            let links = t.append_leaf(SNode { start: N as u64, end: N as u64, mix: leaves[N] }).unwrap();
            assert!(t.len() as usize == after.len);
            assert!(*t.root_node().unwrap().data() == after.root());
            // the appended links are exactly the new array positions, in order
            assert!(links.len() == after.len - before.len);
            let mut i = 0;
            while i < links.len() {
                assert!(matches!(links[i], EntryLink::Stored(ix) if ix as usize == before.len + i));
                let got = t.resolve_link(links[i]).unwrap();
                assert!(*got.data() == after.nodes[before.len + i].data);
                i += 1;
            }
            // truncating the tree we just extended restores root and length
            let removed = t.truncate_leaf().unwrap();
            assert!(removed as usize == after.len - before.len);
            assert!(t.len() as usize == before.len);
            assert!(*t.root_node().unwrap().data() == before.root());
            core::mem::forget(links);
            core::mem::forget(t);
            // truncation on the minimal partial view of the N+1 tree (peaks + right spine)
            let mut u = after.view(true);
            let removed2 = u.truncate_leaf().unwrap();
            assert!(removed2 as usize == after.len - before.len);
            assert!(u.len() as usize == before.len);
            assert!(*u.root_node().unwrap().data() == before.root());
            core::mem::forget(u);
        }
    };
}

//@ {"p":"C20","tier":"experimental","clause":"N=1: append_leaf on the minimal partial view (peaks only) gives the from-scratch MMR root of N+1 leaves, the right new array positions and node data; truncating it again restores root and length; truncate_leaf on the minimal partial view of the N+1 tree (peaks + right spine of the last peak) gives the from-scratch root of N leaves","bounds":"N=1; all leaf payloads symbolic; Tree instantiated with a structural Version (combine = start of left, end of right, asymmetric 64-bit mix)","covers":0,"t":600,"unwindset":{"search_tree.0":2,"find_key_index.0":14,"fn:Tree::<c20_history::SV>::get_peaks":3}}
mmr_ops!(c20_mmr_ops_1, 1, 7);
//@ {"p":"C20","tier":"experimental","clause":"same, N=2 (append creates a second peak; truncation of an odd tree)","bounds":"N=2","covers":0,"t":600,"unwindset":{"search_tree.0":2,"find_key_index.0":14,"fn:Tree::<c20_history::SV>::get_peaks":4}}
mmr_ops!(c20_mmr_ops_2, 2, 7);
//@ {"p":"C20","tier":"experimental","clause":"same, N=3 (append merges twice into a perfect 4-leaf tree; truncating a complete tree)","bounds":"N=3","covers":0,"t":900,"unwindset":{"search_tree.0":2,"find_key_index.0":14,"fn:Tree::<c20_history::SV>::get_peaks":4}}
mmr_ops!(c20_mmr_ops_3, 3, 7);
//@ {"p":"C20","tier":"experimental","clause":"same, N=7 (three peaks collapse into one perfect 8-leaf tree)","bounds":"N=7","covers":0,"t":1200,"unwindset":{"search_tree.0":2,"find_key_index.0":14,"fn:Tree::<c20_history::SV>::get_peaks":5}}
mmr_ops!(c20_mmr_ops_7, 7, 11);
//@ {"p":"C20","tier":"experimental","clause":"same, N=4","bounds":"N=4","covers":0,"t":900,"unwindset":{"search_tree.0":2,"find_key_index.0":14,"fn:Tree::<c20_history::SV>::get_peaks":4}}
mmr_ops!(c20_mmr_ops_4, 4, 8);
//@ {"p":"C20","tier":"experimental","clause":"same, N=5","bounds":"N=5","covers":0,"t":900,"unwindset":{"search_tree.0":2,"find_key_index.0":14,"fn:Tree::<c20_history::SV>::get_peaks":4}}
mmr_ops!(c20_mmr_ops_5, 5, 9);
//@ {"p":"C20","tier":"experimental","clause":"same, N=6","bounds":"N=6","covers":0,"t":900,"unwindset":{"search_tree.0":2,"find_key_index.0":14,"fn:Tree::<c20_history::SV>::get_peaks":5}}
mmr_ops!(c20_mmr_ops_6, 6, 10);
//@ {"p":"C20","tier":"experimental","clause":"same, N=8","bounds":"N=8","covers":0,"t":1800,"unwindset":{"search_tree.0":2,"find_key_index.0":14,"fn:Tree::<c20_history::SV>::get_peaks":4}}
mmr_ops!(c20_mmr_ops_8, 8, 12);
//@ {"p":"C20","tier":"experimental","clause":"same, N=11","bounds":"N=11","covers":0,"t":1800,"unwindset":{"search_tree.0":2,"find_key_index.0":14,"fn:Tree::<c20_history::SV>::get_peaks":5}}
mmr_ops!(c20_mmr_ops_11, 11, 15);
//@ {"p":"C20","tier":"experimental","clause":"same, N=15 (four peaks collapse into a perfect 16-leaf tree)","bounds":"N=15","covers":0,"t":3600,"unwindset":{"search_tree.0":2,"find_key_index.0":14,"fn:Tree::<c20_history::SV>::get_peaks":6}}
mmr_ops!(c20_mmr_ops_15, 15, 19);

// ---------------------------------------------------------------------------------------------
// (i) Node record codecs for the real V1/V2/V3 (all counter values, every field symbolic).
// ---------------------------------------------------------------------------------------------

fn any_v1() -> NodeData {
    any_v1_sel(0xFF)
}
/// `sel` selects which groups of fixed-width fields are symbolic (bit 0: commitment, bit 1:
/// times/targets, bit 2: sapling roots, bit 3: work); the others take fixed distinct values.
fn any_v1_sel(sel: u8) -> NodeData {
    let work: [u8; 32] = if sel & 8 != 0 { kani::any() } else { [9u8; 32] };
    let d = NodeData {
        consensus_branch_id: kani::any(),
        subtree_commitment: if sel & 1 != 0 { kani::any() } else { [1u8; 32] },
        start_time: if sel & 2 != 0 { kani::any() } else { 2 },
        end_time: if sel & 2 != 0 { kani::any() } else { 3 },
        start_target: if sel & 2 != 0 { kani::any() } else { 4 },
        end_target: if sel & 2 != 0 { kani::any() } else { 5 },
        start_sapling_root: if sel & 4 != 0 { kani::any() } else { [6u8; 32] },
        end_sapling_root: if sel & 4 != 0 { kani::any() } else { [7u8; 32] },
        subtree_total_work: zcash_history_u256(&work),
        start_height: kani::any(),
        end_height: kani::any(),
        sapling_tx: kani::any(),
    };
    d
}
fn zcash_history_u256(le: &[u8; 32]) -> primitive_types::U256 {
    primitive_types::U256::from_little_endian(le)
}
fn eq_v1(a: &NodeData, b: &NodeData) -> bool {
    a.consensus_branch_id == b.consensus_branch_id
        && a.subtree_commitment == b.subtree_commitment
        && a.start_time == b.start_time
        && a.end_time == b.end_time
        && a.start_target == b.start_target
        && a.end_target == b.end_target
        && a.start_sapling_root == b.start_sapling_root
        && a.end_sapling_root == b.end_sapling_root
        && a.subtree_total_work == b.subtree_total_work
        && a.start_height == b.start_height
        && a.end_height == b.end_height
        && a.sapling_tx == b.sapling_tx
}
fn cs_len(v: u64) -> usize {
    if v < 253 {
        1
    } else if v <= 0xFFFF {
        3
    } else if v <= 0xFFFF_FFFF {
        5
    } else {
        9
    }
}

// The round trip is decided in two halves against ONE independent description of the record
// layout (`expected_byte` / `ref_decode_at`): write(d) == layout(d) byte for byte, and
// read(bytes) == the fields the layout places in those bytes. Together: read(write(d)) == d.
// (A direct write-then-read harness needed 35 GB: reads from an array that was stored to at
// symbolic offsets.)

/// A sink that stores nothing: it counts the bytes written and remembers only the byte written at
/// the (symbolic) position `probe`. Writing into a real buffer at the symbolic offsets that follow
/// a CompactSize and then reading that buffer back at a symbolic index did not finish in 1200 s.
struct ProbeWriter {
    pos: usize,
    probe: usize,
    got: Option<u8>,
}
impl corez::io::Write for ProbeWriter {
    fn write(&mut self, b: &[u8]) -> corez::io::Result<usize> {
        let mut k = 0;
        while k < b.len() {
            if self.pos + k == self.probe {
                self.got = Some(b[k]);
            }
            k += 1;
        }
        self.pos += b.len();
        Ok(b.len())
    }
    fn flush(&mut self) -> corez::io::Result<()> {
        Ok(())
    }
}

/// Byte k of the CompactSize encoding of v.
fn cs_byte(v: u64, k: usize) -> u8 {
    if k == 0 {
        if v < 253 {
            v as u8
        } else if v <= 0xFFFF {
            253
        } else if v <= 0xFFFF_FFFF {
            254
        } else {
            255
        }
    } else {
        (v >> (8 * (k - 1))) as u8
    }
}
/// Byte i of the V1 record of d, per the specification of the node layout.
fn expected_byte_v1(d: &NodeData, work_le: &[u8; 32], i: usize) -> u8 {
    let (l0, l1) = (cs_len(d.start_height), cs_len(d.end_height));
    if i < 32 {
        d.subtree_commitment[i]
    } else if i < 36 {
        d.start_time.to_le_bytes()[i - 32]
    } else if i < 40 {
        d.end_time.to_le_bytes()[i - 36]
    } else if i < 44 {
        d.start_target.to_le_bytes()[i - 40]
    } else if i < 48 {
        d.end_target.to_le_bytes()[i - 44]
    } else if i < 80 {
        d.start_sapling_root[i - 48]
    } else if i < 112 {
        d.end_sapling_root[i - 80]
    } else if i < 144 {
        work_le[i - 112]
    } else if i < 144 + l0 {
        cs_byte(d.start_height, i - 144)
    } else if i < 144 + l0 + l1 {
        cs_byte(d.end_height, i - 144 - l0)
    } else {
        cs_byte(d.sapling_tx, i - 144 - l0 - l1)
    }
}
/// Reference CompactSize decoder at offset p of a buffer: (value, length), None if non-canonical.
fn ref_decode_at(b: &[u8], p: usize) -> Option<(u64, usize)> {
    let (need, min): (usize, u64) = match b[p] {
        0..=252 => return Some((b[p] as u64, 1)),
        253 => (2, 253),
        254 => (4, 0x1_0000),
        _ => (8, 0x1_0000_0000),
    };
    let mut v: u64 = 0;
    let mut k = need;
    while k > 0 {
        v = (v << 8) | b[p + k] as u64;
        k -= 1;
    }
    if v < min {
        None
    } else {
        Some((v, 1 + need))
    }
}

//@ {"p":"C20","tier":"quick","clause":"NodeData V1 write: the record is exactly the specified layout (commitment, times, targets, Sapling roots, 256-bit work little-endian, then the three counters as unbounded CompactSizes), byte for byte at a symbolic position, and its length is 144 + the three compact sizes; counters beyond the usual compact-size bound included","bounds":"every field symbolic: all roots, all work values, all u64 counter values","covers":3,"t":900}
#[kani::proof]
#[kani::unwind(40)]
fn c20_write_layout_v1() {
    let work: [u8; 32] = kani::any();
    let mut d = any_v1_sel(0x07);
    d.subtree_total_work = zcash_history_u256(&work);
    let i: usize = kani::any();
    let mut sink = ProbeWriter { pos: 0, probe: i, got: None };
    let w = V1::write(&d, &mut sink);
    assert!(w.is_ok());
    core::mem::forget(w);
    let n = sink.pos;
    assert!(n == 144 + cs_len(d.start_height) + cs_len(d.end_height) + cs_len(d.sapling_tx));
    if i < n {
        assert!(sink.got == Some(expected_byte_v1(&d, &work, i)));
    } else {
        assert!(sink.got.is_none());
    }
    kani::cover!(n == 171 && i == 170);
    kani::cover!(n == 147 && i == 146);
    kani::cover!(d.start_height == 253 && i == 145);
}

//@ {"p":"C20","tier":"quick","clause":"NodeData V1 read of an arbitrary buffer: never panics; Ok iff all three counters are canonical CompactSizes and the height range is representable (end >= start, end-start != u64::MAX); every returned field is the one the layout places in the buffer; exactly the record's bytes are consumed","bounds":"all 171-byte buffers (the maximal V1 record length, so no read is ever truncated)","assume":"Err values are mem::forget-ed","covers":3,"t":900}
#[kani::proof]
#[kani::unwind(40)]
fn c20_read_layout_v1() {
    let buf: [u8; 171] = kani::any();
    let branch: u32 = kani::any();
    let mut rd = corez::io::Cursor::new(&buf[..]);
    let r = V1::read(branch, &mut rd);
    let c0 = ref_decode_at(&buf, 144);
    let c1 = match c0 {
        Some((_, l0)) => ref_decode_at(&buf, 144 + l0),
        None => None,
    };
    let c2 = match (c0, c1) {
        (Some((_, l0)), Some((_, l1))) => ref_decode_at(&buf, 144 + l0 + l1),
        _ => None,
    };
    match r {
        Ok(e) => {
            let ((sh, l0), (eh, l1), (tx, l2)) = (c0.unwrap(), c1.unwrap(), c2.unwrap());
            assert!(e.start_height == sh && e.end_height == eh && e.sapling_tx == tx);
            assert!(eh >= sh && eh - sh != u64::MAX);
            assert!(rd.position() as usize == 144 + l0 + l1 + l2);
            assert!(e.consensus_branch_id == branch);
            let k: usize = kani::any();
            kani::assume(k < 32);
            assert!(e.subtree_commitment[k] == buf[k]);
            assert!(e.start_sapling_root[k] == buf[48 + k] && e.end_sapling_root[k] == buf[80 + k]);
            let mut w = [0u8; 32];
            e.subtree_total_work.to_little_endian(&mut w);
            assert!(w[k] == buf[112 + k]);
            assert!(e.start_time == u32::from_le_bytes([buf[32], buf[33], buf[34], buf[35]]));
            assert!(e.end_time == u32::from_le_bytes([buf[36], buf[37], buf[38], buf[39]]));
            assert!(e.start_target == u32::from_le_bytes([buf[40], buf[41], buf[42], buf[43]]));
            assert!(e.end_target == u32::from_le_bytes([buf[44], buf[45], buf[46], buf[47]]));
            kani::cover!(l0 == 9 && l1 == 9 && l2 == 9);
            kani::cover!(l0 == 1 && l1 == 3 && l2 == 5);
        }
        Err(e) => {
            let ok_counters = c0.is_some() && c1.is_some();
            let representable = match (c0, c1) {
                (Some((sh, _)), Some((eh, _))) => eh >= sh && eh - sh != u64::MAX,
                _ => false,
            };
            assert!(!(ok_counters && representable && c2.is_some()));
            kani::cover!(ok_counters && !representable);
            core::mem::forget(e);
        }
    }
}

//@ {"p":"C20","tier":"quick","clause":"NodeData V2/V3 write: after the V1 record come the Orchard start/end roots and the Orchard tx count, then (V3) the Ironwood start/end roots and tx count, byte for byte; lengths exact","bounds":"extension roots and all five counters symbolic, remaining V1 fields fixed","covers":2,"t":1200}
#[kani::proof]
#[kani::unwind(40)]
fn c20_write_layout_v3() {
    let mut v1 = any_v1_sel(0);
    let w9 = [9u8; 32];
    let d3 = NodeDataV3 {
        v2: NodeDataV2 {
            v1: {
                v1.consensus_branch_id = 0;
                v1
            },
            start_orchard_root: kani::any(),
            end_orchard_root: kani::any(),
            orchard_tx: kani::any(),
        },
        start_ironwood_root: kani::any(),
        end_ironwood_root: kani::any(),
        ironwood_tx: kani::any(),
    };
    let i: usize = kani::any();
    let mut sink = ProbeWriter { pos: 0, probe: i, got: None };
    let w = V3::write(&d3, &mut sink);
    assert!(w.is_ok());
    core::mem::forget(w);
    let n = sink.pos;
    let v1d = &d3.v2.v1;
    let base = 144 + cs_len(v1d.start_height) + cs_len(v1d.end_height) + cs_len(v1d.sapling_tx);
    let lo = cs_len(d3.v2.orchard_tx);
    assert!(n == base + 64 + lo + 64 + cs_len(d3.ironwood_tx));
    kani::assume(i < n);
    let want = if i < base {
        expected_byte_v1(v1d, &w9, i)
    } else if i < base + 32 {
        d3.v2.start_orchard_root[i - base]
    } else if i < base + 64 {
        d3.v2.end_orchard_root[i - base - 32]
    } else if i < base + 64 + lo {
        cs_byte(d3.v2.orchard_tx, i - base - 64)
    } else if i < base + 96 + lo {
        d3.start_ironwood_root[i - base - 64 - lo]
    } else if i < base + 128 + lo {
        d3.end_ironwood_root[i - base - 96 - lo]
    } else {
        cs_byte(d3.ironwood_tx, i - base - 128 - lo)
    };
    assert!(sink.got == Some(want));
    // the V2 writer emits exactly the V2 prefix
    let mut sink2 = ProbeWriter { pos: 0, probe: i, got: None };
    let w2 = V2::write(&d3.v2, &mut sink2);
    assert!(w2.is_ok());
    core::mem::forget(w2);
    assert!(sink2.pos == base + 64 + lo);
    if i < sink2.pos {
        assert!(sink2.got == sink.got);
    }
    kani::cover!(i == n - 1 && cs_len(d3.ironwood_tx) == 9);
    kani::cover!(i >= base + 64 && i < base + 64 + lo && lo == 3);
}

//@ {"p":"C20","tier":"quick","clause":"NodeData V3 read of an arbitrary buffer whose V1 part is a fixed valid record: the Orchard/Ironwood roots and counters returned are the ones the layout places in the buffer; Ok iff both extension counters are canonical; the V2 reader consumes exactly the V2 prefix of the same bytes","bounds":"V1 part = fixed 147-byte record (counters 1 byte each); all 146 following bytes symbolic","assume":"Err values are mem::forget-ed","covers":2,"t":1200}
#[kani::proof]
#[kani::unwind(40)]
fn c20_read_layout_v3() {
    let mut buf = [0u8; 293];
    let tail: [u8; 146] = kani::any();
    buf[144] = 5; // start_height
    buf[145] = 9; // end_height
    buf[146] = 3; // sapling_tx
    buf[147..].copy_from_slice(&tail);
    let mut rd = corez::io::Cursor::new(&buf[..]);
    let r = V3::read(0, &mut rd);
    let co = ref_decode_at(&buf, 147 + 64);
    let ci = match co {
        Some((_, lo)) => ref_decode_at(&buf, 147 + 64 + lo + 64),
        None => None,
    };
    match r {
        Ok(e) => {
            let ((otx, lo), (itx, li)) = (co.unwrap(), ci.unwrap());
            assert!(e.v2.v1.start_height == 5 && e.v2.v1.end_height == 9 && e.v2.v1.sapling_tx == 3);
            assert!(e.v2.orchard_tx == otx && e.ironwood_tx == itx);
            let k: usize = kani::any();
            kani::assume(k < 32);
            assert!(e.v2.start_orchard_root[k] == buf[147 + k] && e.v2.end_orchard_root[k] == buf[179 + k]);
            assert!(e.start_ironwood_root[k] == buf[211 + lo + k] && e.end_ironwood_root[k] == buf[243 + lo + k]);
            assert!(rd.position() as usize == 147 + 64 + lo + 64 + li);
            let mut rd2 = corez::io::Cursor::new(&buf[..]);
            let e2 = V2::read(0, &mut rd2).unwrap();
            assert!(e2.orchard_tx == otx && rd2.position() as usize == 147 + 64 + lo);
            kani::cover!(lo == 9 && li == 3);
        }
        Err(e) => {
            assert!(co.is_none() || ci.is_none());
            kani::cover!(co.is_some());
            core::mem::forget(e);
        }
    }
}

// ---------------------------------------------------------------------------------------------
// (ii) combine: field rules + exact hash framing (hash abstracted: the stub records what it is
// given and returns arbitrary bytes).
// ---------------------------------------------------------------------------------------------

static mut H_PERS: [u8; 16] = [0u8; 16];
static mut H_PERS_LEN: usize = 0;
static mut H_IN: [u8; 8] = [0u8; 8];
static mut H_INPUT_LEN: usize = 0;
static mut H_OUT: [u8; 32] = [0u8; 32];
static mut H_CALLS: u32 = 0;

fn blake2b_personal_stub(personalization: &[u8], input: &[u8]) -> [u8; 32] {
    unsafe {
        H_CALLS += 1;
        H_PERS_LEN = personalization.len();
        if personalization.len() == 16 {
            H_PERS.copy_from_slice(personalization);
        }
        H_INPUT_LEN = input.len();
        if input.len() == 8 {
            H_IN.copy_from_slice(input);
        }
        H_OUT
    }
}

/// Stand-in for `NodeData::write` in the combine harness: a 4-byte marker that identifies the node
/// (its two time stamps' low bytes and two target low bytes). What `write` really emits is decided
/// by c20_write_layout_v1; here only "which records are hashed, in which order" is at stake, and a
/// real serialisation at symbolic offsets ran CBMC out of memory.
fn node_write_marker<W: corez::io::Write>(d: &NodeData, w: &mut W) -> corez::io::Result<()> {
    w.write_all(&[d.start_time as u8, d.end_time as u8, d.start_target as u8, d.end_target as u8])
}

//@ {"p":"C20","tier":"quick","clause":"V1 combine: start fields from the left child, end fields from the right child, work and transaction counts summed, branch id from the left; the subtree commitment is the hash of record(left) followed by record(right), each exactly once and in that order, under the personalisation \"ZcashHistory\" || branch_id (LE)","bounds":"every field of both children symbolic; counter and work sums assumed not to overflow (work < 2^255 each, stated)","assume":"stubs: zcash_history::version::blake2b_personal records its arguments and returns arbitrary 32 bytes (hash abstraction); NodeData::write replaced by a 4-byte identifying marker (its real output is decided by c20_write_layout_v1)","covers":1,"t":1200,"stub":true,"replay":"model"}
#[kani::proof]
#[kani::stub(zcash_history::version::blake2b_personal, blake2b_personal_stub)]
#[kani::stub(zcash_history::node_data::NodeData::write, node_write_marker)]
#[kani::unwind(40)]
fn c20_combine_v1() {
    let l = any_v1();
    let mut r = any_v1();
    r.consensus_branch_id = l.consensus_branch_id;
    kani::assume(l.sapling_tx.checked_add(r.sapling_tx).is_some());
    // keep the 256-bit work sum from overflowing: both below 2^255
    kani::assume(!l.subtree_total_work.bit(255) && !r.subtree_total_work.bit(255));
    unsafe { H_OUT = kani::any() };
    let c = V1::combine(&l, &r);
    assert!(unsafe { H_CALLS } == 1);
    assert!(c.consensus_branch_id == l.consensus_branch_id);
    assert!(c.subtree_commitment == unsafe { H_OUT });
    assert!(c.start_time == l.start_time && c.end_time == r.end_time);
    assert!(c.start_target == l.start_target && c.end_target == r.end_target);
    assert!(c.start_sapling_root == l.start_sapling_root && c.end_sapling_root == r.end_sapling_root);
    assert!(c.start_height == l.start_height && c.end_height == r.end_height);
    assert!(c.sapling_tx == l.sapling_tx + r.sapling_tx);
    assert!(c.subtree_total_work == l.subtree_total_work + r.subtree_total_work);
    // framing
    let mut pers = [0u8; 16];
    pers[..12].copy_from_slice(b"ZcashHistory");
    pers[12..].copy_from_slice(&l.consensus_branch_id.to_le_bytes());
    assert!(unsafe { H_PERS_LEN } == 16 && unsafe { H_PERS } == pers);
    assert!(unsafe { H_INPUT_LEN } == 8);
    let want = [
        l.start_time as u8, l.end_time as u8, l.start_target as u8, l.end_target as u8,
        r.start_time as u8, r.end_time as u8, r.start_target as u8, r.end_target as u8,
    ];
    assert!(unsafe { H_IN } == want);
    kani::cover!(l.start_time as u8 != r.start_time as u8);
}

// ---------------------------------------------------------------------------------------------
// Entry arithmetic and the partial-view constructor.
// ---------------------------------------------------------------------------------------------

//@ {"p":"C20","tier":"quick","clause":"Entry::leaf_count == end_height - start_height + 1 for every representable height range (including end_height == u64::MAX); complete() iff that count is a power of two; leaf()/left()/right() reflect the entry kind","bounds":"all (start, end) with start <= end and end - start != u64::MAX","covers":3,"t":600}
#[kani::proof]
fn c20_entry_leaf_count() {
    let (start, end): (u64, u64) = (kani::any(), kani::any());
    kani::assume(start <= end && end - start != u64::MAX);
    let e: Entry<SV> = Entry::new_leaf(SNode { start, end, mix: 0 });
    let n = e.leaf_count();
    assert!(n as u128 == end as u128 - start as u128 + 1);
    assert!(e.complete() == (n & (n - 1) == 0));
    assert!(e.leaf() && e.left().is_err() && e.right().is_err());
    let f: Entry<SV> = Entry::new(SNode { start, end, mix: 1 }, EntryLink::Stored(3), EntryLink::Generated(4));
    assert!(!f.leaf() && matches!(f.left(), Ok(EntryLink::Stored(3))) && matches!(f.right(), Ok(EntryLink::Generated(4))));
    assert!(f.leaf_count() == n);
    kani::cover!(end == u64::MAX && n == 1);
    kani::cover!(n == 1 << 63);
    kani::cover!(!e.complete());
}

macro_rules! tree_new_root {
    ($name:ident, $n:expr) => {
        #[kani::proof]
        #[kani::unwind(8)]
        fn $name() {
            const N: usize = $n;
            let leaves: [u64; 17] = kani::any();
            let m = build(N, &leaves);
            let t = m.view(false);
            assert!(t.len() as usize == m.len);
            // the partial view's root is the peaks bagged LEFT to RIGHT: ((p0, p1), p2) ...
            assert!(*t.root_node().unwrap().data() == m.root());
            core::mem::forget(t);
        }
    };
}
//@ {"p":"C20","tier":"experimental","clause":"Tree::new on the minimal partial view of a 7-leaf tree (three peaks): the root equals the from-scratch MMR root (peaks bagged left to right) and the length is the array length","bounds":"N=7 (peaks of 4, 2, 1 leaves), all leaf payloads symbolic; structural Version","covers":0,"t":1200,"unwindset":{"search_tree.0":2,"find_key_index.0":14}}
tree_new_root!(c20_tree_new_7, 7);
//@ {"p":"C20","tier":"experimental","clause":"same for N=15 (four peaks)","bounds":"N=15","covers":0,"t":2400,"unwindset":{"search_tree.0":2,"find_key_index.0":14}}
tree_new_root!(c20_tree_new_15, 15);
//@ {"p":"C20","tier":"experimental","clause":"same for N=3 (two peaks)","bounds":"N=3","covers":0,"t":900,"unwindset":{"search_tree.0":2,"find_key_index.0":14}}
tree_new_root!(c20_tree_new_3, 3);

// ---------------------------------------------------------------------------------------------
// Entry framing (the real generic `Entry::<V>::{read, write}`), instantiated with a structural
// version whose record is three little-endian u64s, so that every byte of the entry is symbolic.
// ---------------------------------------------------------------------------------------------
pub enum SW {}
impl Version for SW {
    type NodeData = SNode;
    fn consensus_branch_id(_d: &SNode) -> u32 {
        1
    }
    fn start_height(d: &SNode) -> u64 {
        d.start
    }
    fn end_height(d: &SNode) -> u64 {
        d.end
    }
    fn combine(l: &SNode, r: &SNode) -> SNode {
        SNode { start: l.start, end: r.end, mix: smix(l, r) }
    }
    fn combine_inner(_c: [u8; 32], l: &SNode, r: &SNode) -> SNode {
        Self::combine(l, r)
    }
    fn read<R: corez::io::Read>(_b: u32, r: &mut R) -> corez::io::Result<SNode> {
        let mut b = [0u8; 8];
        r.read_exact(&mut b)?;
        let start = u64::from_le_bytes(b);
        r.read_exact(&mut b)?;
        let end = u64::from_le_bytes(b);
        r.read_exact(&mut b)?;
        let mix = u64::from_le_bytes(b);
        Ok(SNode { start, end, mix })
    }
    fn write<W: corez::io::Write>(d: &SNode, w: &mut W) -> corez::io::Result<()> {
        w.write_all(&d.start.to_le_bytes())?;
        w.write_all(&d.end.to_le_bytes())?;
        w.write_all(&d.mix.to_le_bytes())
    }
}

fn le64(b: &[u8], at: usize) -> u64 {
    let mut x = [0u8; 8];
    x.copy_from_slice(&b[at..at + 8]);
    u64::from_le_bytes(x)
}

//@ {"p":"C20","tier":"quick","clause":"Entry::read on an arbitrary buffer: Ok iff the tag is 0 (node: two little-endian u32 stored links, then the record) or 1 (leaf: the record) and the buffer is long enough; kind, links and record are exactly what the bytes say; Entry::write of the result reproduces the consumed bytes; an entry with a Generated link cannot be written (InvalidData, nothing after the check)","bounds":"all buffers of length 0..=33 (33 = node tag + links + 24-byte record of the structural version)","assume":"generic Entry code instantiated with a structural Version (24-byte record); Err values forgotten","covers":4,"t":900}
#[kani::proof]
#[kani::unwind(34)]
fn c20_entry_framing() {
    let buf: [u8; 33] = kani::any();
    let len: usize = kani::any();
    kani::assume(len <= 33);
    let mut rd: &[u8] = &buf[..len];
    let r = Entry::<SW>::read(1, &mut rd);
    let want_len = if len >= 1 && buf[0] == 0 {
        Some(33)
    } else if len >= 1 && buf[0] == 1 {
        Some(25)
    } else {
        None
    };
    let want_ok = matches!(want_len, Some(n) if len >= n);
    match r {
        Ok(e) => {
            assert!(want_ok);
            let n = want_len.unwrap();
            assert!(rd.len() == len - n);
            let at = n - 24;
            assert!(e.data().start == le64(&buf, at) && e.data().end == le64(&buf, at + 8) && e.data().mix == le64(&buf, at + 16));
            if buf[0] == 0 {
                let l = u32::from_le_bytes([buf[1], buf[2], buf[3], buf[4]]);
                let rr = u32::from_le_bytes([buf[5], buf[6], buf[7], buf[8]]);
                assert!(!e.leaf());
                assert!(matches!(e.left(), Ok(EntryLink::Stored(x)) if x == l));
                assert!(matches!(e.right(), Ok(EntryLink::Stored(x)) if x == rr));
                kani::cover!(l != rr);
            } else {
                assert!(e.leaf() && e.left().is_err());
                kani::cover!(len > 25);
            }
            // write reproduces the consumed bytes
            let probe: usize = kani::any();
            kani::assume(probe < n);
            let mut w = ProbeWriter { pos: 0, probe, got: None };
            let wr = e.write(&mut w);
            assert!(wr.is_ok());
            core::mem::forget(wr);
            assert!(w.pos == n && w.got == Some(buf[probe]));
        }
        Err(e) => {
            assert!(!want_ok);
            kani::cover!(len >= 1 && buf[0] == 2);
            kani::cover!(len == 32 && buf[0] == 0);
            core::mem::forget(e);
        }
    }
    // an entry with a generated link is refused by write
    let g: Entry<SW> = Entry::new(SNode { start: 1, end: 2, mix: 3 }, EntryLink::Stored(kani::any()), EntryLink::Generated(kani::any()));
    let mut w = ProbeWriter { pos: 0, probe: 0, got: None };
    let wr = g.write(&mut w);
    assert!(wr.is_err() && w.pos == 0);
    core::mem::forget(wr);
}
