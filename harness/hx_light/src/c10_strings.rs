//! NOT compiled (no `mod` line in lib.rs): probe kept for the record. Encoding one TEX address with a
//! symbolic payload did not leave symex in 30 min (bech32 `encode_lower_to_fmt` writes one char at a
//! time through fmt::Write into a String, each followed by UTF-8 validation loops).
//! C10 (string layer) — an address encodes to a string that parses back to the same address and
//! network. Decided for the Bech32m TEX form with the 20 payload bytes symbolic.
use zcash_address::{ToAddress, ZcashAddress};
use zcash_protocol::consensus::NetworkType;

macro_rules! tex_roundtrip {
    ($name:ident, $net:expr, $hrp:expr) => {
        #[kani::proof]
        #[kani::unwind(70)]
        fn $name() {
            let data: [u8; 20] = kani::any();
            let addr = ZcashAddress::from_tex($net, data);
            let s = addr.encode();
            let hrp: &str = $hrp;
            assert!(s.len() == hrp.len() + 1 + 32 + 6);
            assert!(s.as_bytes()[..hrp.len()] == *hrp.as_bytes() && s.as_bytes()[hrp.len()] == b'1');
            let back = ZcashAddress::try_from_encoded(&s);
            match back {
                Ok(b) => {
                    assert!(b == addr);
                    kani::cover!(data[0] == 0xFF && data[19] == 1);
                    core::mem::forget(b);
                }
                Err(e) => {
                    core::mem::forget(e);
                    panic!("an encoded address did not parse");
                }
            }
            core::mem::forget(s);
        }
    };
}
//@ {"p":"C10","tier":"experimental","clause":"TEX address, regtest: encode then parse is the identity on (network, 20 payload bytes); the string starts with texregtest1 and has the Bech32m length","bounds":"all 20-byte payloads; network Regtest","covers":1,"t":2400}
tex_roundtrip!(c10_tex_roundtrip_regtest, NetworkType::Regtest, "texregtest");
