//! C03 (codec layer) — CompactSize / Vector / Optional are faithful and canonical.
//! The harnessed code is the local zcash_encoding 0.5 under components/ (the anchored file, used by
//! zcash_history). zcash_primitives / zcash_transparent still link the published 0.4 from the
//! registry, which is not part of this repository (and lacks the *_unbounded entry points).

fn cs_len(v: u64) -> usize {
    if v < 253 {
        1
    } else if v <= 0xFFFF {
        3
    } else if v <= 0xFFFF_FFFF {
        5
    } else {
        9
    }
}
/// Reference decoder: (value, consumed) or None when truncated / non-canonical.
fn ref_decode(b: &[u8]) -> Option<(u64, usize)> {
    if b.is_empty() {
        return None;
    }
    let (need, min): (usize, u64) = match b[0] {
        0..=252 => return Some((b[0] as u64, 1)),
        253 => (2, 253),
        254 => (4, 0x1_0000),
        _ => (8, 0x1_0000_0000),
    };
    if b.len() < 1 + need {
        return None;
    }
    let mut v: u64 = 0;
    let mut i = need;
    while i > 0 {
        v = (v << 8) | b[i] as u64;
        i -= 1;
    }
    if v < min {
        None
    } else {
        Some((v, 1 + need))
    }
}

macro_rules! compact_size_harnesses {
    ($dec:ident, $enc:ident, $vec:ident, $opt:ident, $krate:ident) => {
        #[kani::proof]
        #[kani::unwind(10)]
        fn $dec() {
            use $krate::CompactSize;
            let buf: [u8; 9] = kani::any();
            let len: usize = kani::any();
            kani::assume(len <= 9);
            let want = ref_decode(&buf[..len]);
            let mut rd: &[u8] = &buf[..len];
            let r = CompactSize::read_unbounded(&mut rd);
            match r {
                Ok(v) => {
                    assert!(want == Some((v, len - rd.len())));
                    // canonical: re-encoding reproduces exactly the consumed bytes
                    let mut out = [0u8; 9];
                    let left = {
                        let mut w: &mut [u8] = &mut out;
                        let wr = CompactSize::write_unbounded(&mut w, v);
                        assert!(wr.is_ok());
                        core::mem::forget(wr);
                        w.len()
                    };
                    let n = 9 - left;
                    assert!(n == len - rd.len() && n == cs_len(v));
                    let i: usize = kani::any();
                    kani::assume(i < n);
                    assert!(out[i] == buf[i]);
                    kani::cover!(v == u64::MAX);
                    kani::cover!(v == 253);
                }
                Err(e) => {
                    assert!(want.is_none());
                    kani::cover!(len == 9 && buf[0] == 255);
                    kani::cover!(len == 2 && buf[0] == 253);
                    core::mem::forget(e);
                }
            }
            // the bounded reader additionally rejects values above MAX_COMPACT_SIZE
            let mut rd2: &[u8] = &buf[..len];
            let r2 = CompactSize::read(&mut rd2);
            match r2 {
                Ok(v) => assert!(matches!(want, Some((w, _)) if w == v) && v <= 0x0200_0000),
                Err(e) => {
                    assert!(!matches!(want, Some((w, _)) if w <= 0x0200_0000));
                    core::mem::forget(e);
                }
            }
        }

        #[kani::proof]
        #[kani::unwind(10)]
        fn $enc() {
            use $krate::CompactSize;
            let v: u64 = kani::any();
            let mut out = [0u8; 9];
            let left = {
                let mut w: &mut [u8] = &mut out;
                let wr = CompactSize::write_unbounded(&mut w, v);
                assert!(wr.is_ok());
                core::mem::forget(wr);
                w.len()
            };
            let n = 9 - left;
            assert!(n == cs_len(v));
            assert!(CompactSize::serialized_size(v as usize) == n);
            assert!(ref_decode(&out[..n]) == Some((v, n)));
            let mut rd: &[u8] = &out[..n];
            let r = CompactSize::read_unbounded(&mut rd);
            assert!(matches!(r, Ok(x) if x == v));
            assert!(rd.is_empty());
            core::mem::forget(r);
            kani::cover!(v == 0xFFFF);
            kani::cover!(v == 0x1_0000_0000);
        }

        #[kani::proof]
        #[kani::unwind(4)]
        fn $opt() {
            use $krate::Optional;
            let ob: [u8; 2] = kani::any();
            let o = Optional::read(&ob[..], |mut r| {
                let mut b = [0u8; 1];
                corez::io::Read::read_exact(&mut r, &mut b).map(|_| b[0])
            });
            match o {
                Ok(None) => assert!(ob[0] == 0),
                Ok(Some(x)) => assert!(ob[0] == 1 && x == ob[1]),
                Err(e) => {
                    assert!(ob[0] > 1);
                    core::mem::forget(e);
                }
            }
            kani::cover!(ob[0] == 1);
            kani::cover!(ob[0] == 2);
        }

        #[kani::proof]
        #[kani::unwind(10)]
        fn $vec() {
            use $krate::Vector;
            // Vector<u8> with up to 3 elements and Optional<u8>: decode(encode(x)) == x, and any
            // accepted buffer re-encodes to the consumed bytes
            let mut buf: [u8; 5] = kani::any();
            let len: usize = kani::any();
            kani::assume(len <= 5);
            // element count <= 3 (bound of this harness), instantiated concretely: the collect()
            // machinery with a symbolic count did not get through symex in 400 s
            let cnt: u8 = kani::any();
            kani::assume(cnt <= 3);
            buf[0] = match cnt {
                0 => 0,
                1 => 1,
                2 => 2,
                _ => 3,
            };
            let mut rd: &[u8] = &buf[..len];
            let r = Vector::read(&mut rd, |r| {
                let mut b = [0u8; 1];
                corez::io::Read::read_exact(r, &mut b).map(|_| b[0])
            });
            match r {
                Ok(v) => {
                    assert!(len >= 1 && v.len() == buf[0] as usize && len - rd.len() == 1 + v.len());
                    let i: usize = kani::any();
                    kani::assume(i < v.len());
                    assert!(v[i] == buf[1 + i]);
                    let mut out = [0u8; 5];
                    let left = {
                        let mut w: &mut [u8] = &mut out;
                        let wr = Vector::write(&mut w, &v, |w, e| corez::io::Write::write_all(w, &[*e]));
                        assert!(wr.is_ok());
                        core::mem::forget(wr);
                        w.len()
                    };
                    assert!(5 - left == 1 + v.len());
                    let j: usize = kani::any();
                    kani::assume(j < 1 + v.len());
                    assert!(out[j] == buf[j]);
                    kani::cover!(v.len() == 3);
                    core::mem::forget(v);
                }
                Err(e) => {
                    assert!(len == 0 || len < 1 + buf[0] as usize);
                    kani::cover!(len == 3 && buf[0] == 3);
                    core::mem::forget(e);
                }
            }
        }
    };
}

//@ {"p":"C03","tier":"quick","name":"c03_compactsize_decode_local","clause":"CompactSize (local zcash_encoding 0.5) on an arbitrary buffer: never panics, consumes what the reference decoder says, rejects truncated input and every non-canonical prefix (0xFD<253, 0xFE<2^16, 0xFF<2^32), and whatever it accepts re-encodes to exactly the consumed bytes; read() additionally rejects values above MAX_COMPACT_SIZE","bounds":"all byte strings of length 0..=9 (complete)","assume":"Err values are mem::forget-ed","covers":4,"t":900}
//@ {"p":"C03","tier":"quick","name":"c03_compactsize_encode_local","clause":"CompactSize (local 0.5): write_unbounded(v) has length serialized_size(v), decodes back to v consuming everything, for every u64","bounds":"all u64 (complete)","covers":2,"t":900}
//@ {"p":"C03","tier":"experimental","name":"c03_vector_local","clause":"Vector<u8> (local 0.5): accepted buffers decode to the bytes after the count and re-encode to the consumed prefix; truncated vectors are rejected (did not get through symex in 450 s: collect::<Result<Vec>>)","bounds":"element count <= 3, buffers <= 5 bytes","covers":2,"t":3600}
//@ {"p":"C03","tier":"quick","name":"c03_optional_local","clause":"Optional<u8> (local 0.5): tag 0 is None, tag 1 is Some(next byte), every other tag is rejected (non-canonical)","bounds":"all 2-byte buffers","covers":2,"t":600}
compact_size_harnesses!(c03_compactsize_decode_local, c03_compactsize_encode_local, c03_vector_local, c03_optional_local, zcash_encoding_local);

