//! C12 (narrow) — memo bytes survive unchanged: MemoBytes / Memo codecs.
//! The URI layer of ZIP 321 (format!/nom over &str) is outside what CBMC got through; see DESIGN.
use zcash_protocol::memo::{Error, Memo, MemoBytes};

macro_rules! from_bytes_len {
    ($name:ident, $len:expr) => {
        #[kani::proof]
        #[kani::unwind(522)]
        fn $name() {
            const LEN: usize = $len;
            let buf: [u8; LEN] = kani::any();
            let r = MemoBytes::from_bytes(&buf);
            if LEN > 512 {
                assert!(matches!(r, Err(Error::TooLong(n)) if n == LEN));
                core::mem::forget(r);
            } else {
                let m = r.unwrap();
                let a = m.as_array();
                let i: usize = kani::any();
                kani::assume(i < 512);
                if i < LEN {
                    assert!(a[i] == buf[i]);
                } else {
                    assert!(a[i] == 0);
                }
                // as_slice: the array without its trailing zeros
                let s = m.as_slice();
                assert!(s.len() <= LEN);
                if !s.is_empty() {
                    assert!(s[s.len() - 1] != 0);
                }
                if i < s.len() {
                    assert!(s[i] == a[i]);
                } else {
                    assert!(a[i] == 0);
                }
                kani::cover!(s.len() == LEN);
                kani::cover!(LEN > 0 && s.len() == 0);
                core::mem::forget(m);
            }
        }
    };
}

//@ {"p":"C12","tier":"quick","clause":"MemoBytes::from_bytes on a 512-byte input: Ok; the stored array equals the input; as_slice() is the array without its trailing zeros (ends in a non-zero byte or is empty, everything after it is zero)","bounds":"all 512-byte inputs (a symbolic length 0..=520 ran CBMC out of memory; lengths are instantiated concretely: 512, 20, 0, 513, 520)","covers":2,"t":1800}
from_bytes_len!(c12_from_bytes_512, 512);
//@ {"p":"C12","tier":"quick","clause":"same for a 20-byte input: zero padded to 512","bounds":"all 20-byte inputs","covers":2,"t":900}
from_bytes_len!(c12_from_bytes_20, 20);
//@ {"p":"C12","tier":"quick","clause":"the empty input gives the all-zero memo (as_slice empty)","bounds":"length 0","covers":1,"t":900}
from_bytes_len!(c12_from_bytes_0, 0);
//@ {"p":"C12","tier":"quick","clause":"513 bytes: Err(TooLong(513))","bounds":"all 513-byte inputs","covers":0,"t":900}
from_bytes_len!(c12_from_bytes_513, 513);
//@ {"p":"C12","tier":"thorough","clause":"520 bytes: Err(TooLong(520))","bounds":"all 520-byte inputs","covers":0,"t":900}
from_bytes_len!(c12_from_bytes_520, 520);

fn head_tail_array() -> [u8; 512] {
    // first 8 and last 8 bytes symbolic, the 496 in between zero (an all-symbolic 512-byte array
    // ran CBMC out of memory)
    let head: [u8; 8] = kani::any();
    let tail: [u8; 8] = kani::any();
    let mut a = [0u8; 512];
    a[..8].copy_from_slice(&head);
    a[504..].copy_from_slice(&tail);
    a
}

//@ {"p":"C12","tier":"experimental","clause":"(out of memory after 1580 s) decoding the non-text memo classes: 0xF6 followed by zeros is Empty, 0xFF is Arbitrary carrying the other 511 bytes, 0xF5 / 0xF6-with-payload / 0xF7..0xFE are Future carrying all 512 bytes","bounds":"512-byte arrays with first byte >= 0xF5 whose first 8 and last 8 bytes are symbolic and the rest zero","covers":4,"t":1800}
#[kani::proof]
#[kani::unwind(514)]
fn c12_memo_nontext_decode() {
    let a = head_tail_array();
    kani::assume(a[0] >= 0xF5);
    let mb = MemoBytes::from_bytes(&a).unwrap();
    let m = Memo::try_from(&mb);
    assert!(m.is_ok());
    let m = m.unwrap();
    let i: usize = kani::any();
    kani::assume(i >= 1 && i < 512);
    match &m {
        Memo::Empty => {
            assert!(a[0] == 0xF6 && a[i] == 0);
            kani::cover!(true);
        }
        Memo::Arbitrary(b) => {
            assert!(a[0] == 0xFF && b[i - 1] == a[i]);
            kani::cover!(a[511] == 7);
        }
        Memo::Future(b) => {
            assert!(a[0] != 0xFF && b.as_array()[i] == a[i] && b.as_array()[0] == a[0]);
            assert!(a[0] != 0xF6 || a[1..8] != [0u8; 7] || a[504..] != [0u8; 8]);
            kani::cover!(a[0] == 0xF6);
            kani::cover!(a[0] == 0xF5);
        }
        Memo::Text(_) => assert!(false),
    }
    core::mem::forget(m);
    core::mem::forget(mb);
}

//@ {"p":"C12","tier":"quick","clause":"encoding the non-text memo classes reproduces the bytes: Empty is 0xF6 followed by zeros, Arbitrary(b) is 0xFF followed by b, Future(m) is m unchanged","bounds":"payloads whose first 8 and last 8 bytes are symbolic and the rest zero","covers":2,"t":1800}
#[kani::proof]
#[kani::unwind(514)]
fn c12_memo_nontext_encode() {
    let a = head_tail_array();
    let i: usize = kani::any();
    kani::assume(i >= 1 && i < 512);
    let which: u8 = kani::any();
    if which == 0 {
        let e = Memo::Empty.encode();
        assert!(e.as_array()[0] == 0xF6 && e.as_array()[i] == 0);
        core::mem::forget(e);
    } else if which == 1 {
        let mut b = [0u8; 511];
        b.copy_from_slice(&a[1..]);
        let e = Memo::Arbitrary(Box::new(b)).encode();
        assert!(e.as_array()[0] == 0xFF && e.as_array()[i] == a[i]);
        kani::cover!(a[511] == 9);
        core::mem::forget(e);
    } else {
        let mb = MemoBytes::from_bytes(&a).unwrap();
        let e = Memo::Future(mb).encode();
        assert!(e.as_array()[0] == a[0] && e.as_array()[i] == a[i]);
        kani::cover!(a[0] == 0xF7);
        core::mem::forget(e);
    }
}

/// Reference UTF-8 validity (Unicode 15 table 3-7) for a short slice.
fn utf8_valid(s: &[u8]) -> bool {
    let mut i = 0;
    while i < s.len() {
        let b = s[i];
        let need = if b < 0x80 {
            0
        } else if (0xC2..=0xDF).contains(&b) {
            1
        } else if (0xE0..=0xEF).contains(&b) {
            2
        } else if (0xF0..=0xF4).contains(&b) {
            3
        } else {
            return false;
        };
        if need > 0 && i + need >= s.len() {
            return false; // truncated sequence
        }
        let mut k = 1;
        while k <= need {
            let c = s[i + k];
            let (lo, hi) = if k == 1 {
                match b {
                    0xE0 => (0xA0, 0xBF),
                    0xED => (0x80, 0x9F),
                    0xF0 => (0x90, 0xBF),
                    0xF4 => (0x80, 0x8F),
                    _ => (0x80, 0xBF),
                }
            } else {
                (0x80, 0xBF)
            };
            if c < lo || c > hi {
                return false;
            }
            k += 1;
        }
        i += need + 1;
    }
    true
}

//@ {"p":"C12","tier":"experimental","clause":"(did not finish in 1800 s) text memos: for a first byte <= 0xF4 decoding succeeds iff the bytes up to the last non-zero byte are valid UTF-8 (independent table 3-7 validator); the text is exactly those bytes and encoding it reproduces the 512-byte array","bounds":"memos whose non-zero content lies in the first 4 bytes (all 2^32 such prefixes), zero padded to 512","covers":3,"t":1800}
#[kani::proof]
#[kani::unwind(514)]
fn c12_memo_text_roundtrip() {
    let q: [u8; 4] = kani::any();
    let p: [u8; 6] = [q[0], q[1], q[2], q[3], 0, 0];
    kani::assume(p[0] <= 0xF4);
    let mut a = [0u8; 512];
    a[..6].copy_from_slice(&p);
    let mb = MemoBytes::from_bytes(&a).unwrap();
    let slen = mb.as_slice().len();
    assert!(slen <= 4);
    let r = Memo::try_from(&mb);
    let valid = utf8_valid(&p[..slen]);
    match r {
        Ok(Memo::Text(t)) => {
            assert!(valid);
            let tb = t.as_bytes();
            assert!(tb.len() == slen);
            let i: usize = kani::any();
            kani::assume(i < 6);
            if i < slen {
                assert!(tb[i] == p[i]);
            }
            let back = Memo::Text(t).encode();
            assert!(back.as_array()[i] == a[i]);
            let j: usize = kani::any();
            kani::assume(j < 512);
            assert!(back.as_array()[j] == a[j]);
            kani::cover!(slen == 4 && p[0] == 0xF4);
            kani::cover!(slen == 0);
            core::mem::forget(back);
        }
        Ok(_) => assert!(false),
        Err(e) => {
            assert!(!valid);
            assert!(matches!(e, Error::InvalidUtf8(_)));
            kani::cover!(p[0] == 0xE0);
        }
    }
    core::mem::forget(mb);
}
