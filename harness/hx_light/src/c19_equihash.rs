//! C19 — Equihash verification accepts exactly the valid solutions; invalid parameters and
//! lengths are errors, not panics.
//!
//! Uses the cfg(zcash_librustzcash_verif) hook module `equihash::verif_hooks` (thin wrappers
//! around the crate-private `Params`, `indices_from_minimal`, `Node`, `validate_subtrees`).
use equihash::verif_hooks as hk;

// ---------------------------------------------------------------------------------------------
// Layer 1: parameters. For ALL (n, k) in u32 x u32: whatever Params::new accepts satisfies the
// preconditions of everything downstream (so no later assert!/division/shift can fire), and the
// parameter sets in real use are accepted.
// ---------------------------------------------------------------------------------------------

fn check_accepted(n: u32, k: u32, r: Option<(u32, u8, usize, usize)>) {
    if let Some((ipho, ho, c, cb)) = r {
        assert!(n % 8 == 0 && k >= 3 && k < n && n % (k + 1) == 0);
        assert!(c == (n / (k + 1)) as usize);
        assert!(cb == (c + 7) / 8);
        assert!(c >= 8, "collision bit length below expand_array's minimum");
        assert!(c + 1 <= 25, "collision bit length above expand_array's maximum");
        assert!(n <= 512 && ipho >= 1 && ipho == 512 / n);
        assert!((ho as u32) == ipho * n / 8 && ho as u32 <= 64 && ho > 0);
        assert!(k < 64); // `1 << k` in the expected-length computation
    }
}

//@ {"p":"C19","tier":"quick","clause":"every (n,k) accepted by Params::new satisfies the downstream preconditions: n%8==0, 3<=k<n, (k+1)|n, collision bit length c=n/(k+1) in 8..=24 (expand_array is called with bit_len c and c+1 and asserts 8<=bit_len<=25), n<=512 (indices_per_hash_output>=1, used as divisor), hash_output=ipho*n/8<=64, k<64","bounds":"all (n,k) in u32 x u32: k in 3..=63 by 61 concrete-divisor instances with symbolic n, everything else symbolic","covers":2,"t":1800}
#[kani::proof]
#[kani::unwind(66)]
fn c19_params_imply_preconditions() {
    let n: u32 = kani::any();
    let k: u32 = kani::any();
    if k < 3 || k >= 64 || n > 1024 {
        // outside this box nothing may be accepted (k >= 64 would need n/(k+1) >= 8 with n <= 512)
        assert!(hk::params(n, k).is_none());
    } else {
        let mut kc: u32 = 3;
        while kc < 64 {
            if k == kc {
                let r = hk::params(n, kc);
                check_accepted(n, kc, r);
                kani::cover!(n == 200 && kc == 9 && r.is_some());
                kani::cover!(n == 256 && kc == 31 && r.is_some());
            }
            kc += 1;
        }
    }
}

//@ {"p":"C19","tier":"quick","clause":"the parameter sets in real use stay accepted with the right derived quantities: (200,9) mainnet, (48,5) regtest, (96,3), (96,5), (144,5)","bounds":"5 concrete parameter sets","covers":0}
#[kani::proof]
fn c19_params_in_use_accepted() {
    assert!(hk::params(200, 9) == Some((2, 50, 20, 3)));
    assert!(hk::params(48, 5) == Some((10, 60, 8, 1)));
    assert!(hk::params(96, 3) == Some((5, 60, 24, 3)));
    assert!(hk::params(96, 5) == Some((5, 60, 16, 2)));
    assert!(hk::params(144, 5) == Some((3, 54, 24, 3)));
    // rejected: not a multiple of 8, k too small, k >= n, (k+1) does not divide n
    assert!(hk::params(100, 9).is_none() && hk::params(200, 2).is_none());
    assert!(hk::params(8, 8).is_none() && hk::params(200, 8).is_none());
}

/// Reference bit slicer: element `idx` of width `bits` from `v`, big-endian bit order.
fn slice_bits(v: &[u8], idx: usize, bits: usize) -> u32 {
    let mut r: u32 = 0;
    let mut b = 0;
    while b < bits {
        let pos = idx * bits + b;
        let bit = (v[pos / 8] >> (7 - (pos % 8))) & 1;
        r = (r << 1) | bit as u32;
        b += 1;
    }
    r
}

macro_rules! decode_k3 {
    ($name:ident, $n:expr) => {
        #[kani::proof]
        #[kani::unwind(34)]
        fn $name() {
            const N: u32 = $n;
            const C1: usize = (N / 4) as usize + 1; // bits per index == bytes of an 8-index solution
            let buf: [u8; C1] = kani::any();
            let r = hk::decode_indices(N, 3, &buf);
            assert!(r.is_some()); // params accepted
            let ix = r.unwrap();
            assert!(ix.is_some()); // right length => decodes
            let ix = ix.unwrap();
            assert!(ix.len() == 8);
            let j: usize = kani::any();
            kani::assume(j < 8);
            assert!(ix[j] == slice_bits(&buf, j, C1));
            kani::cover!(ix[j] == (1u32 << C1) - 1);
            kani::cover!(j == 7 && ix[j] == 1);
            core::mem::forget(ix);
        }
    };
}

//@ {"p":"C19","tier":"quick","clause":"(32,3): a 9-byte minimal encoding decodes to 8 indices that equal the big-endian 9-bit slices of the input (symbolic position j)","bounds":"all 9-byte strings","covers":2,"t":1200}
decode_k3!(c19_decode_32_3, 32);
//@ {"p":"C19","tier":"quick","clause":"(96,3): a 25-byte encoding decodes to the 8 big-endian 25-bit slices (widest supported index)","bounds":"all 25-byte strings","covers":2,"t":1800}
decode_k3!(c19_decode_96_3, 96);
//@ {"p":"C19","tier":"thorough","clause":"(48,3): 13-bit indices","bounds":"all 13-byte strings","covers":2,"t":1800}
decode_k3!(c19_decode_48_3, 48);
//@ {"p":"C19","tier":"thorough","clause":"(64,3): 17-bit indices","bounds":"all 17-byte strings","covers":2,"t":1800}
decode_k3!(c19_decode_64_3, 64);
//@ {"p":"C19","tier":"thorough","clause":"(80,3): 21-bit indices (the width used by (200,9))","bounds":"all 21-byte strings","covers":2,"t":1800}
decode_k3!(c19_decode_80_3, 80);

//@ {"p":"C19","tier":"quick","clause":"a solution whose length differs from 2^k*(c+1)/8 is rejected (InvalidParams), never decoded and never a panic: (200,9) expects 1344, (48,5) 36, (96,5) 68, (32,3) 9","bounds":"all lengths 0..=2000 over a zero buffer (contents are not read before the length check), 4 parameter sets","covers":1,"t":1200}
#[kani::proof]
#[kani::unwind(2)]
fn c19_wrong_length_rejected() {
    static BUF: [u8; 2000] = [0u8; 2000];
    let len: usize = kani::any();
    kani::assume(len <= 2000);
    wrong_len(200, 9, 1344, &BUF[..len]);
    wrong_len(48, 5, 36, &BUF[..len]);
    wrong_len(96, 5, 68, &BUF[..len]);
    wrong_len(32, 3, 9, &BUF[..len]);
    kani::cover!(len == 1343);
}

fn wrong_len(n: u32, k: u32, want: usize, s: &[u8]) {
    if s.len() != want {
        let r = hk::decode_indices(n, k, s);
        assert!(matches!(r, Some(None)));
        assert!(hk::is_valid_solution_kind(n, k, &[], &[], s) == 5);
    }
}

// ---------------------------------------------------------------------------------------------
// Layer 1b: no panic through the public entry point over a grid of (n,k), solution exactly the
// expected length so the decoder and the first leaf are reached.
// ---------------------------------------------------------------------------------------------

static ZEROS: [u8; 34] = [0u8; 34];

fn grid_call(n: u32, k: u32, leaf: bool) {
    // expected minimal length, computed independently with checked arithmetic
    let c = (n / (k + 1)) as u64;
    let len = 1u64.checked_shl(k).and_then(|x| x.checked_mul(c + 1)).map(|x| (x / 8) as usize);
    if let Some(len) = len {
        if len <= ZEROS.len() {
            // decoder on a solution of exactly the expected length
            let r = hk::decode_indices(n, k, &ZEROS[..len]);
            core::mem::forget(r);
        }
    }
    if leaf {
        let l0 = hk::VNode::leaf(n, k, &[], &[], 0);
        core::mem::forget(l0);
    }
    // and a wrong length through the public entry point
    let r = equihash::is_valid_solution(n, k, &[], &[], &ZEROS[..1]);
    assert!(r.is_err());
    core::mem::forget(r);
}

//@ {"p":"C19","tier":"quick","clause":"extreme accepted/rejected corner parameters never panic: (512,63) whose expected length overflows usize, (512,31), (256,31), (504,62), (8,3), (56,7), (200,3), (520,4), k=u32::MAX","bounds":"9 concrete parameter sets x {expected length if <=34, 1 byte}","covers":0,"t":1200}
#[kani::proof]
#[kani::stub(core::arch::x86_64::__cpuid_count, cpuid_none)]
#[kani::stub(equihash::verify::generate_hash, generate_hash_stub)]
#[kani::unwind(36)]
fn c19_corner_params_no_panic() {
    unsafe { ROW = kani::any() };
    grid_call(512, 63, true);
    grid_call(512, 31, true);
    grid_call(256, 31, false);
    grid_call(504, 62, true);
    grid_call(8, 3, true);
    grid_call(56, 7, true);
    grid_call(200, 3, true);
    grid_call(520, 4, true);
    let r = equihash::is_valid_solution(u32::MAX - 7, u32::MAX, &[], &[], &ZEROS[..3]);
    assert!(r.is_err());
    core::mem::forget(r);
}

// (A per-k grid family through the decoder for every accepted n was tried and dropped: three
// accepted decodes in one harness did not get through symex in 1000 s because of the io::Error
// drop glue in `indices_from_minimal`'s read loop. The all-(n,k) parameter harness, the
// per-width decode harnesses and the corner harness above cover the same ground piecewise.)

// ---------------------------------------------------------------------------------------------
// Layer 3: one step of the tree validator from ARBITRARY children.
// ---------------------------------------------------------------------------------------------

fn step_reference(cb: usize, ah: &[u8], bh: &[u8], ai: &[u32], bi: &[u32]) -> u8 {
    let mut collide = true;
    let mut t = 0;
    while t < cb {
        if ah[t] != bh[t] {
            collide = false;
        }
        t += 1;
    }
    let mut distinct = true;
    let mut x = 0;
    while x < ai.len() {
        let mut y = 0;
        while y < bi.len() {
            if ai[x] == bi[y] {
                distinct = false;
            }
            y += 1;
        }
        x += 1;
    }
    if !collide {
        1
    } else if bi[0] < ai[0] {
        2
    } else if !distinct {
        3
    } else {
        0
    }
}

macro_rules! subtree_step {
    ($name:ident, $n:expr, $k:expr, $cb:expr, $hl:expr, $m:expr) => {
        #[kani::proof]
        #[kani::unwind(10)]
        fn $name() {
            const CB: usize = $cb; // collision byte length for ($n,$k)
            const HL: usize = $hl; // hash bytes remaining at this level
            const M: usize = $m; // indices per child
            let ah: [u8; HL] = kani::any();
            let bh: [u8; HL] = kani::any();
            let ai: [u32; M] = kani::any();
            let bi: [u32; M] = kani::any();
            let a = hk::VNode::from_parts(ah.to_vec(), ai.to_vec());
            let b = hk::VNode::from_parts(bh.to_vec(), bi.to_vec());
            let got = hk::validate_subtrees($n, $k, &a, &b).unwrap();
            let want = step_reference(CB, &ah, &bh, &ai, &bi);
            assert!(got == want);
            // the definition: accepted iff the first segment collides, a's first index is smaller,
            // and the index sets are disjoint
            kani::cover!(got == 0);
            kani::cover!(got == 1);
            kani::cover!(got == 2);
            kani::cover!(got == 3);
            let p = hk::VNode::from_children(a, b, CB);
            assert!(p.hash().len() == HL - CB);
            assert!(p.indices().len() == 2 * M);
            let t: usize = kani::any();
            kani::assume(t < HL - CB);
            assert!(p.hash()[t] == ah[CB + t] ^ bh[CB + t]);
            let j: usize = kani::any();
            kani::assume(j < M);
            if ai[0] < bi[0] {
                assert!(p.indices()[j] == ai[j] && p.indices()[M + j] == bi[j]);
            } else {
                assert!(p.indices()[j] == bi[j] && p.indices()[M + j] == ai[j]);
            }
            // root test: is_zero(len) iff the first len bytes are zero
            let z = p.is_zero(CB);
            let mut allz = true;
            let mut q = 0;
            while q < CB && q < HL - CB {
                if p.hash()[q] != 0 {
                    allz = false;
                }
                q += 1;
            }
            assert!(z == allz);
            kani::cover!(z && got == 0);
            core::mem::forget(p);
        }
    };
}

//@ {"p":"C19","tier":"quick","clause":"one validator step, leaves of (200,9): validate_subtrees == definition (Collision / OutOfOrder / DuplicateIdxs precedence; Ok iff first 3-byte segment equal, a[0]<b[0], index sets disjoint), from_children = xor of the tails + indices of the lower-first child first, is_zero = prefix all zero","bounds":"children with 1 index each, 6 remaining hash bytes, all hashes and indices symbolic","covers":5,"t":1200}
subtree_step!(c19_step_200_9_m1, 200, 9, 3, 6, 1);
//@ {"p":"C19","tier":"quick","clause":"same step, children with 2 indices each","bounds":"2+2 indices, 6 hash bytes","covers":5,"t":1200}
subtree_step!(c19_step_200_9_m2, 200, 9, 3, 6, 2);
//@ {"p":"C19","tier":"quick","clause":"same step, children with 4 indices each (8-leaf subtree)","bounds":"4+4 indices, 6 hash bytes","covers":5,"t":1800}
subtree_step!(c19_step_200_9_m4, 200, 9, 3, 6, 4);
//@ {"p":"C19","tier":"thorough","clause":"same step for (48,5): 1-byte segments","bounds":"2+2 indices, 3 hash bytes","covers":5,"t":1200}
subtree_step!(c19_step_48_5_m2, 48, 5, 1, 3, 2);
//@ {"p":"C19","tier":"thorough","clause":"same step for (96,5): 2-byte segments","bounds":"4+4 indices, 4 hash bytes","covers":5,"t":1800}
subtree_step!(c19_step_96_5_m4, 96, 5, 2, 4, 4);

// ---------------------------------------------------------------------------------------------
// Leaves: Node::new under an arbitrary hash function (generate_hash stubbed).
// ---------------------------------------------------------------------------------------------

static mut ROW: [u8; 64] = [0u8; 64];
static mut STUB_ARG: u32 = 0;
static mut STUB_CALLS: u32 = 0;

/// Builds a `blake2b_simd::Hash` of length `len` whose bytes are `bytes[..len]`.
/// `Hash` is `{ bytes: [u8; 64], len: u8 }`; the layout assumption is checked by the assertion.
fn mk_hash(bytes: &[u8; 64], len: usize) -> blake2b_simd::Hash {
    let mut raw = [0u8; 65];
    raw[..64].copy_from_slice(bytes);
    raw[64] = len as u8;
    let h: blake2b_simd::Hash = unsafe { core::mem::transmute(raw) };
    assert!(h.as_bytes().len() == len);
    h
}

static mut STUB_LEN: usize = 64;

/// blake2b_simd (feature std) picks its implementation with cpuid (inline asm, unsupported by
/// Kani). Reporting "no features" selects the portable implementation.
fn cpuid_none(_leaf: u32, _sub: u32) -> core::arch::x86_64::CpuidResult {
    core::arch::x86_64::CpuidResult { eax: 0, ebx: 0, ecx: 0, edx: 0 }
}

fn generate_hash_stub(_base: &blake2b_simd::State, i: u32) -> blake2b_simd::Hash {
    unsafe {
        STUB_ARG = i;
        STUB_CALLS += 1;
        mk_hash(&*core::ptr::addr_of!(ROW), STUB_LEN)
    }
}

/// The hash row the leaf must be derived from: the stub's row under Kani; the real BLAKE2b
/// output when the harness is replayed natively (stubs are not applied there).
fn oracle_row(n: u32, k: u32, g: u32, ho: usize) -> [u8; 64] {
    if unsafe { STUB_CALLS } > 0 {
        unsafe { ROW }
    } else {
        let mut pers = [0u8; 16];
        pers[..8].copy_from_slice(b"ZcashPoW");
        pers[8..12].copy_from_slice(&n.to_le_bytes());
        pers[12..16].copy_from_slice(&k.to_le_bytes());
        let mut st = blake2b_simd::Params::new().hash_length(ho).personal(&pers).to_state();
        st.update(&g.to_le_bytes());
        let h = st.finalize();
        let mut out = [0u8; 64];
        out[..ho].copy_from_slice(h.as_bytes());
        out
    }
}

macro_rules! leaf {
    ($name:ident, $n:expr, $k:expr) => {
        #[kani::proof]
        #[kani::stub(equihash::verify::generate_hash, generate_hash_stub)]
        #[kani::stub(core::arch::x86_64::__cpuid_count, cpuid_none)]
        #[kani::unwind(66)]
        fn $name() {
            const N: u32 = $n;
            const K: u32 = $k;
            let (ipho, ho, c, cb) = hk::params(N, K).unwrap();
            unsafe {
                ROW = kani::any();
                STUB_LEN = ho as usize;
            }
            let i: u32 = kani::any();
            let leaf = hk::VNode::leaf(N, K, &[], &[], i).unwrap();
            let row = oracle_row(N, K, i / ipho, ho as usize);
            if unsafe { STUB_CALLS } > 0 {
                assert!(unsafe { STUB_CALLS } == 1 && unsafe { STUB_ARG } == i / ipho);
            }
            assert!(leaf.indices().len() == 1 && leaf.indices()[0] == i);
            assert!(leaf.hash().len() == (K as usize + 1) * cb);
            let start = ((i % ipho) * N / 8) as usize;
            let seg = &row[start..start + (N as usize) / 8];
            let e: usize = kani::any();
            kani::assume(e <= K as usize);
            let v = slice_bits(seg, e, c);
            // element e is v, big-endian in cb bytes
            let mut got: u32 = 0;
            let mut t = 0;
            while t < cb {
                got = (got << 8) | leaf.hash()[e * cb + t] as u32;
                t += 1;
            }
            assert!(got == v);
            kani::cover!(i % ipho == ipho - 1 && v == (1u32 << c) - 1);
            core::mem::forget(leaf);
        }
    };
}

//@ {"p":"C19","tier":"quick","clause":"leaf of (200,9) for every index i: hash input block is i/2, the leaf takes bytes [(i%2)*25, +25) of the 50-byte output and expands them to 10 big-endian 20-bit segments in 3 bytes each; indices == [i]","bounds":"all u32 indices, all 64-byte hash outputs (generate_hash stubbed: arbitrary hash function)","assume":"stub: equihash::verify::generate_hash returns an arbitrary row and records its argument; native replay uses real BLAKE2b","covers":1,"t":1800,"stub":true,"replay":"model"}
leaf!(c19_leaf_200_9, 200, 9);
//@ {"p":"C19","tier":"thorough","clause":"leaf of (48,5): 10 indices per 60-byte output, 8-bit segments (expand_array no-op path)","bounds":"all u32 indices, all hash outputs","assume":"stub: generate_hash arbitrary","covers":1,"t":1800,"stub":true,"replay":"model"}
leaf!(c19_leaf_48_5, 48, 5);
//@ {"p":"C19","tier":"thorough","clause":"leaf of (96,5): 16-bit segments","bounds":"all u32 indices, all hash outputs","assume":"stub: generate_hash arbitrary","covers":1,"t":1800,"stub":true,"replay":"model"}
leaf!(c19_leaf_96_5, 96, 5);

// ---------------------------------------------------------------------------------------------
// Root test: tree validation followed by "the remaining segment is zero", on the smallest trees
// (1 and 2 leaves) under an arbitrary hash function. Exercises tree_validator's recursion step
// and is_valid_solution_recursive's final check through the hook `validate_indices`.
// ---------------------------------------------------------------------------------------------

static mut ROWS: [[u8; 64]; 2] = [[0u8; 64]; 2];
static mut ROW_KEYS: [u32; 2] = [0; 2];
static mut ROW_USED: usize = 0;

/// Arbitrary but CONSISTENT hash function on at most two distinct blocks: the same block index
/// always gets the same row.
fn generate_hash_stub2(_base: &blake2b_simd::State, g: u32) -> blake2b_simd::Hash {
    unsafe {
        let used = ROW_USED;
        if used >= 1 && ROW_KEYS[0] == g {
            return mk_hash(&*core::ptr::addr_of!(ROWS[0]), STUB_LEN);
        }
        if used >= 2 && ROW_KEYS[1] == g {
            return mk_hash(&*core::ptr::addr_of!(ROWS[1]), STUB_LEN);
        }
        assert!(used < 2);
        ROW_KEYS[used] = g;
        ROW_USED = used + 1;
        mk_hash(&*core::ptr::addr_of!(ROWS[used]), STUB_LEN)
    }
}

macro_rules! root_check {
    ($name1:ident, $name2:ident, $n:expr, $k:expr) => {
        #[kani::proof]
        #[kani::stub(equihash::verify::generate_hash, generate_hash_stub2)]
        #[kani::stub(core::arch::x86_64::__cpuid_count, cpuid_none)]
        #[kani::unwind(27)]
        fn $name1() {
            const N: u32 = $n;
            const K: u32 = $k;
            let (ipho, ho, c, _cb) = hk::params(N, K).unwrap();
            unsafe {
                ROWS = kani::any();
                STUB_LEN = ho as usize;
            }
            let nb = (N / 8) as usize;
            // one leaf: Ok iff the leaf's first segment is zero, else NonZeroRootHash
            let i: u32 = kani::any();
            let r1 = hk::validate_indices(N, K, &[], &[], &[i]).unwrap();
            let row_i = unsafe { ROWS[0] };
            let start = ((i % ipho) * N / 8) as usize;
            let s_i0 = slice_bits(&row_i[start..start + nb], 0, c);
            assert!(r1 == if s_i0 == 0 { 0 } else { 4 });
            kani::cover!(r1 == 0);
            kani::cover!(r1 == 4 && s_i0 < 256); // non-zero only in the low 8 bits of the segment
        }

        #[kani::proof]
        #[kani::stub(equihash::verify::generate_hash, generate_hash_stub2)]
        #[kani::stub(core::arch::x86_64::__cpuid_count, cpuid_none)]
        #[kani::unwind(27)]
        fn $name2() {
            const N: u32 = $n;
            const K: u32 = $k;
            let (ipho, ho, c, _cb) = hk::params(N, K).unwrap();
            unsafe {
                ROWS = kani::any();
                STUB_LEN = ho as usize;
            }
            let nb = (N / 8) as usize;
            // two leaves in the same hash block (so one stub row serves both)
            let (i, j): (u32, u32) = (kani::any(), kani::any());
            kani::assume(i / ipho == j / ipho);
            let r2 = hk::validate_indices(N, K, &[], &[], &[i, j]).unwrap();
            let row = unsafe { ROWS[0] };
            let (si, sj) = (((i % ipho) * N / 8) as usize, ((j % ipho) * N / 8) as usize);
            let (a0, b0) = (slice_bits(&row[si..si + nb], 0, c), slice_bits(&row[sj..sj + nb], 0, c));
            let (a1, b1) = (slice_bits(&row[si..si + nb], 1, c), slice_bits(&row[sj..sj + nb], 1, c));
            let want = if a0 != b0 {
                1 // Collision
            } else if j < i {
                2 // OutOfOrder
            } else if i == j {
                3 // DuplicateIdxs
            } else if a1 ^ b1 != 0 {
                4 // NonZeroRootHash
            } else {
                0
            };
            assert!(r2 == want);
            kani::cover!(r2 == 0);
            kani::cover!(r2 == 4 && (a1 ^ b1) < 256);
            kani::cover!(r2 == 2);
        }
    };
}

//@ {"p":"C19","tier":"quick","name":"c19_root_1leaf_200_9","clause":"root test through tree_validator + is_valid_solution_recursive on a 1-leaf tree of (200,9): accepted iff the leaf's first 20-bit segment is zero over ALL its bits (ceil(20/8)=3 bytes), else NonZeroRootHash","bounds":"all u32 indices, all hash rows (generate_hash stubbed: arbitrary hash function)","assume":"stub: generate_hash arbitrary; a 1-leaf tree is not a full solution (reached through the verif hook)","covers":2,"t":1800,"stub":true,"replay":"model","unwindset":{"verify::distinct_indices.*":3,"minimal::expand_array.0":5,"minimal::expand_array.1":27,"fn:equihash::verify::tree_validator":3}}
//@ {"p":"C19","tier":"experimental","name":"c19_root_2leaf_200_9","clause":"2-leaf tree of (200,9): accepted iff the first segments collide, i<j, and the xor of the second segments is zero over the whole segment; error kinds in the documented precedence (Collision, OutOfOrder, DuplicateIdxs, NonZeroRootHash)","bounds":"all pairs of u32 indices in the same hash block, all hash rows","assume":"stub: generate_hash arbitrary but consistent","covers":3,"t":1800,"stub":true,"replay":"model","unwindset":{"verify::distinct_indices.*":3,"minimal::expand_array.0":5,"minimal::expand_array.1":27,"fn:equihash::verify::tree_validator":3}}
root_check!(c19_root_1leaf_200_9, c19_root_2leaf_200_9, 200, 9);
//@ {"p":"C19","tier":"thorough","name":"c19_root_1leaf_48_3","clause":"same 1-leaf root test for (48,3): 12-bit segments in 2 bytes","bounds":"all indices and rows","assume":"stub: generate_hash arbitrary","covers":2,"t":1800,"stub":true,"replay":"model","unwindset":{"verify::distinct_indices.*":3,"minimal::expand_array.0":5,"minimal::expand_array.1":27,"fn:equihash::verify::tree_validator":3}}
//@ {"p":"C19","tier":"experimental","name":"c19_root_2leaf_48_3","clause":"same 2-leaf test for (48,3)","bounds":"all index pairs in one block, all rows","assume":"stub: generate_hash arbitrary consistent","covers":3,"t":1800,"stub":true,"replay":"model","unwindset":{"verify::distinct_indices.*":3,"minimal::expand_array.0":5,"minimal::expand_array.1":27,"fn:equihash::verify::tree_validator":3}}
root_check!(c19_root_1leaf_48_3, c19_root_2leaf_48_3, 48, 3);

// Near-miss lengths with ARBITRARY contents: the decoder must refuse a solution that is one byte
// too long or too short even though its bits would still decode to the right number of indices.
macro_rules! near_length {
    ($name:ident, $n:expr, $k:expr, $len:expr) => {
        #[kani::proof]
        #[kani::unwind(40)]
        fn $name() {
            let buf: [u8; $len] = kani::any();
            let r = hk::decode_indices($n, $k, &buf);
            assert!(matches!(r, Some(None)));
            core::mem::forget(r);
            assert!(hk::is_valid_solution_kind($n, $k, &[], &[], &buf) == 5);
        }
    };
}
//@ {"p":"C19","tier":"quick","clause":"(32,3) expects 9 bytes: every 10-byte string is rejected with InvalidParams (never decoded, whatever the surplus byte holds)","bounds":"all 10-byte strings","covers":0,"t":1200}
near_length!(c19_near_length_32_3_plus1, 32, 3, 10);
//@ {"p":"C19","tier":"quick","clause":"(32,3): every 8-byte string is rejected","bounds":"all 8-byte strings","covers":0,"t":1200}
near_length!(c19_near_length_32_3_minus1, 32, 3, 8);
//@ {"p":"C19","tier":"thorough","clause":"(96,3) expects 25 bytes: every 26-byte string is rejected","bounds":"all 26-byte strings","covers":0,"t":1800}
near_length!(c19_near_length_96_3_plus1, 96, 3, 26);
