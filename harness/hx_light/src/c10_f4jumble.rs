//! C10 (partial) — the jumbling transform is a length-preserving bijection on its valid lengths.
//!
//! F4Jumble is a 4-round Feistel network; it is invertible for ANY round function. BLAKE2b is
//! therefore abstracted: `blake2b_simd::Params::{hash_length, personal, hash}` are stubbed by a
//! cheap deterministic mixing function of (output length, all 16 personalisation bytes, every
//! input byte, output index). What the solver then decides is the STRUCTURE: split point, round
//! order, block index j in the G personalisation, xor of the tail block. A native replay uses the
//! real BLAKE2b and must show the same failure for a structural defect.

static mut LAST_LEN: usize = 0;
static mut LAST_PERS: [u8; 16] = [0u8; 16];
static mut STUBBED: bool = false;

fn stub_hash_length(p: &mut blake2b_simd::Params, length: usize) -> &mut blake2b_simd::Params {
    unsafe {
        LAST_LEN = length;
        STUBBED = true;
    }
    p
}
fn stub_personal<'a>(p: &'a mut blake2b_simd::Params, personalization: &[u8]) -> &'a mut blake2b_simd::Params {
    unsafe {
        assert!(personalization.len() == 16);
        LAST_PERS.copy_from_slice(personalization);
    }
    p
}
fn stub_hash(_p: &blake2b_simd::Params, input: &[u8]) -> blake2b_simd::Hash {
    let (len, pers) = unsafe { (LAST_LEN, LAST_PERS) };
    assert!(len >= 1 && len <= 64);
    // rotate/xor/add only: multipliers made the 16-round harness need > 16 GB
    let mut s: u32 = len as u32;
    let mut i = 0;
    while i < 16 {
        s = s.rotate_left(5) ^ (pers[i] as u32).wrapping_add(i as u32);
        i += 1;
    }
    let mut i = 0;
    while i < input.len() {
        s = s.rotate_left(7).wrapping_add(input[i] as u32 ^ ((i as u32) << 8));
        i += 1;
    }
    let mut raw = [0u8; 65];
    let mut k = 0;
    while k < len {
        raw[k] = (s.rotate_left((k % 32) as u32) as u8) ^ (k as u8) ^ input[k % input.len()];
        k += 1;
    }
    raw[64] = len as u8;
    // blake2b_simd::Hash is { bytes: [u8; 64], len: u8 }; the layout assumption is checked here
    let h: blake2b_simd::Hash = unsafe { core::mem::transmute(raw) };
    assert!(h.as_bytes().len() == len);
    h
}

/// blake2b_simd (feature std) selects its implementation with cpuid (inline asm, unsupported by
/// Kani) when a `Params` is created; reporting "no features" selects the portable one.
fn cpuid_none(_leaf: u32, _sub: u32) -> core::arch::x86_64::CpuidResult {
    core::arch::x86_64::CpuidResult { eax: 0, ebx: 0, ecx: 0, edx: 0 }
}

macro_rules! jumble_bijection {
    ($name:ident, $l:expr, $fwd:expr) => {
        #[kani::proof]
        #[kani::stub(blake2b_simd::Params::hash_length, stub_hash_length)]
        #[kani::stub(blake2b_simd::Params::personal, stub_personal)]
        #[kani::stub(blake2b_simd::Params::hash, stub_hash)]
        #[kani::stub(core::arch::x86_64::__cpuid_count, cpuid_none)]
        #[kani::unwind(4)]
        fn $name() {
            const L: usize = $l;
            let m: [u8; L] = kani::any();
            let i: usize = kani::any();
            kani::assume(i < L);
            let mut a = m;
            if $fwd {
                assert!(f4jumble::f4jumble_mut(&mut a).is_ok());
                let mut b = a;
                assert!(f4jumble::f4jumble_inv_mut(&mut b).is_ok());
                assert!(b[i] == m[i]); // inv(jumble(m)) == m
            } else {
                assert!(f4jumble::f4jumble_inv_mut(&mut a).is_ok());
                let mut d = a;
                assert!(f4jumble::f4jumble_mut(&mut d).is_ok());
                assert!(d[i] == m[i]); // jumble(inv(m)) == m
            }
            // non-vacuity: the transform is not the identity and reaches the last byte
            kani::cover!(a[L - 1] != m[L - 1]);
            kani::cover!(a[0] != m[0]);
        }
    };
}

//@ {"p":"C10","tier":"quick","clause":"f4jumble_inv(f4jumble(m)) == m and f4jumble(f4jumble_inv(m)) == m, same length, for every message of length 48 (left 24 / right 24, one G block)","bounds":"all messages of length 48","assume":"stub: blake2b_simd::Params::{hash_length,personal,hash} replaced by a deterministic mixing function (hash abstraction; Feistel invertibility does not depend on the round function)","covers":2,"t":1800,"stub":true,"replay":"model","unwindset":{"f4jumble::xor.0":66,"blake2b_simd::Params::hash.0":18,"blake2b_simd::Params::hash.1":196,"blake2b_simd::Params::hash.2":66,"g_round.0":5}}
jumble_bijection!(c10_jumble_48, 48, true);
//@ {"p":"C10","tier":"thorough","why_thorough":"on a finite domain inv(jumble(m)) == m for all m already implies jumble(inv(m)) == m; kept for the thorough tier so that the quick check stays well under 900 s","clause":"(direction jumble(inv(m))) f4jumble_inv(f4jumble(m)) == m and f4jumble(f4jumble_inv(m)) == m, same length, for every message of length 48 (left 24 / right 24, one G block)","bounds":"all messages of length 48","assume":"stub: blake2b_simd::Params::{hash_length,personal,hash} replaced by a deterministic mixing function (hash abstraction; Feistel invertibility does not depend on the round function)","covers":2,"t":1800,"stub":true,"replay":"model","unwindset":{"f4jumble::xor.0":66,"blake2b_simd::Params::hash.0":18,"blake2b_simd::Params::hash.1":196,"blake2b_simd::Params::hash.2":66,"g_round.0":5}}
jumble_bijection!(c10_jumble_48_inv, 48, false);
//@ {"p":"C10","tier":"experimental","why_experimental":"11.8 M variables (129) / larger (193): out of memory at 14 GB, timeout 3000 s at 26 GB","clause":"same, length 129 (left saturates at 64, right 65: two G blocks, the second a 1-byte tail)","bounds":"all messages of length 129","assume":"stub: BLAKE2b abstracted","covers":2,"t":1200,"stub":true,"replay":"model","unwindset":{"f4jumble::xor.0":66,"blake2b_simd::Params::hash.0":18,"blake2b_simd::Params::hash.1":196,"blake2b_simd::Params::hash.2":66,"g_round.0":5}}
jumble_bijection!(c10_jumble_129, 129, true);
//@ {"p":"C10","tier":"experimental","why_experimental":"11.8 M variables (129) / larger (193): out of memory at 14 GB, timeout 3000 s at 26 GB","clause":"(direction jumble(inv(m))) same, length 129 (left saturates at 64, right 65: two G blocks, the second a 1-byte tail)","bounds":"all messages of length 129","assume":"stub: BLAKE2b abstracted","covers":2,"t":1200,"stub":true,"replay":"model","unwindset":{"f4jumble::xor.0":66,"blake2b_simd::Params::hash.0":18,"blake2b_simd::Params::hash.1":196,"blake2b_simd::Params::hash.2":66,"g_round.0":5}}
jumble_bijection!(c10_jumble_129_inv, 129, false);
//@ {"p":"C10","tier":"thorough","clause":"same, length 63 (odd length, left 31 / right 32)","bounds":"all messages of length 63","assume":"stub: BLAKE2b abstracted","covers":2,"t":2400,"stub":true,"replay":"model","unwindset":{"f4jumble::xor.0":66,"blake2b_simd::Params::hash.0":18,"blake2b_simd::Params::hash.1":196,"blake2b_simd::Params::hash.2":66,"g_round.0":5}}
jumble_bijection!(c10_jumble_63, 63, true);
//@ {"p":"C10","tier":"thorough","clause":"(direction jumble(inv(m))) same, length 63 (odd length, left 31 / right 32)","bounds":"all messages of length 63","assume":"stub: BLAKE2b abstracted","covers":2,"t":2400,"stub":true,"replay":"model","unwindset":{"f4jumble::xor.0":66,"blake2b_simd::Params::hash.0":18,"blake2b_simd::Params::hash.1":196,"blake2b_simd::Params::hash.2":66,"g_round.0":5}}
jumble_bijection!(c10_jumble_63_inv, 63, false);
//@ {"p":"C10","tier":"experimental","why_experimental":"7.7 M variables: no verdict within 1200 s / 14 GB when run next to other harnesses","clause":"same, length 128 (left 64 / right 64)","bounds":"all messages of length 128","assume":"stub: BLAKE2b abstracted","covers":2,"t":1200,"stub":true,"replay":"model","unwindset":{"f4jumble::xor.0":66,"blake2b_simd::Params::hash.0":18,"blake2b_simd::Params::hash.1":196,"blake2b_simd::Params::hash.2":66,"g_round.0":5}}
jumble_bijection!(c10_jumble_128, 128, true);
//@ {"p":"C10","tier":"experimental","why_experimental":"timeout 1200 s","clause":"(direction jumble(inv(m))) same, length 128 (left 64 / right 64)","bounds":"all messages of length 128","assume":"stub: BLAKE2b abstracted","covers":2,"t":1200,"stub":true,"replay":"model","unwindset":{"f4jumble::xor.0":66,"blake2b_simd::Params::hash.0":18,"blake2b_simd::Params::hash.1":196,"blake2b_simd::Params::hash.2":66,"g_round.0":5}}
jumble_bijection!(c10_jumble_128_inv, 128, false);
//@ {"p":"C10","tier":"thorough","clause":"same, length 65","bounds":"all messages of length 65","assume":"stub: BLAKE2b abstracted","covers":2,"t":2400,"stub":true,"replay":"model","unwindset":{"f4jumble::xor.0":66,"blake2b_simd::Params::hash.0":18,"blake2b_simd::Params::hash.1":196,"blake2b_simd::Params::hash.2":66,"g_round.0":5}}
jumble_bijection!(c10_jumble_65, 65, true);
//@ {"p":"C10","tier":"thorough","clause":"(direction jumble(inv(m))) same, length 65","bounds":"all messages of length 65","assume":"stub: BLAKE2b abstracted","covers":2,"t":2400,"stub":true,"replay":"model","unwindset":{"f4jumble::xor.0":66,"blake2b_simd::Params::hash.0":18,"blake2b_simd::Params::hash.1":196,"blake2b_simd::Params::hash.2":66,"g_round.0":5}}
jumble_bijection!(c10_jumble_65_inv, 65, false);
//@ {"p":"C10","tier":"experimental","why_experimental":"11.8 M variables (129) / larger (193): out of memory at 14 GB, timeout 3000 s at 26 GB","clause":"same, length 193 (right 129: three G blocks)","bounds":"all messages of length 193","assume":"stub: BLAKE2b abstracted","covers":2,"t":2400,"stub":true,"replay":"model","unwindset":{"f4jumble::xor.0":66,"blake2b_simd::Params::hash.0":18,"blake2b_simd::Params::hash.1":196,"blake2b_simd::Params::hash.2":66,"g_round.0":5}}
jumble_bijection!(c10_jumble_193, 193, true);
//@ {"p":"C10","tier":"experimental","why_experimental":"11.8 M variables (129) / larger (193): out of memory at 14 GB, timeout 3000 s at 26 GB","clause":"(direction jumble(inv(m))) same, length 193 (right 129: three G blocks)","bounds":"all messages of length 193","assume":"stub: BLAKE2b abstracted","covers":2,"t":2400,"stub":true,"replay":"model","unwindset":{"f4jumble::xor.0":66,"blake2b_simd::Params::hash.0":18,"blake2b_simd::Params::hash.1":196,"blake2b_simd::Params::hash.2":66,"g_round.0":5}}
jumble_bijection!(c10_jumble_193_inv, 193, false);

//@ {"p":"C10","tier":"quick","clause":"lengths below 48 are rejected with InvalidLength by both directions and leave the buffer untouched; VALID_LENGTH is 48..=4194368","bounds":"all buffers of length 0..=47","covers":1,"t":600}
#[kani::proof]
#[kani::unwind(50)]
fn c10_jumble_invalid_length() {
    let m: [u8; 47] = kani::any();
    let len: usize = kani::any();
    kani::assume(len <= 47);
    let mut a = m;
    assert!(f4jumble::f4jumble_mut(&mut a[..len]).is_err());
    assert!(f4jumble::f4jumble_inv_mut(&mut a[..len]).is_err());
    let i: usize = kani::any();
    kani::assume(i < 47);
    assert!(a[i] == m[i]);
    assert!(*f4jumble::VALID_LENGTH.start() == 48 && *f4jumble::VALID_LENGTH.end() == 4194368);
    kani::cover!(len == 47);
}
