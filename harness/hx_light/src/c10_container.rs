//! C10 (container rules) — unified addresses are accepted only when well-formed per ZIP 316,
//! through the public `Encoding::try_from_items` (which orders the items and applies the rules).
use zcash_address::unified::{Address, Container, Encoding, ParseError, Receiver, Typecode};

fn any_receiver(d: u8) -> (Receiver, u32) {
    // the payload byte is concrete (the rules do not look at payloads; a symbolic one made the
    // two-item harness take 570 s and up to 14 GB)
    let kind: u8 = kani::any();
    kani::assume(kind < 5);
    match kind {
        0 => (Receiver::P2pkh([d; 20]), 0),
        1 => (Receiver::P2sh([d; 20]), 1),
        2 => (Receiver::Sapling([d; 43]), 2),
        3 => (Receiver::Orchard([d; 43]), 3),
        _ => {
            let t: u32 = kani::any();
            kani::assume(t == 4 || t == 5 || t == 0xFFFF || t == 0x0200_0000);
            (Receiver::Unknown { typecode: t, data: vec![d] }, t)
        }
    }
}

//@ {"p":"C10","tier":"quick","clause":"a unified address built from TWO receivers is accepted iff the typecodes differ, they are not P2PKH together with P2SH (so not only transparent either); the error is DuplicateTypecode / BothP2phkAndP2sh accordingly; on success the receivers are stored in ascending typecode order, both present, unknown receivers preserved","bounds":"2 receivers, each any of P2PKH/P2SH/Sapling/Orchard/Unknown(typecode in {4, 5, 0xFFFF, 0x02000000}, 1 data byte; the full range took 550 s); payload bytes concrete","covers":4,"t":1200,"unwindset":{"memcmp.0":45}}
#[kani::proof]
#[kani::unwind(6)]
fn c10_container_two_items() {
    let (r0, c0) = any_receiver(0x11);
    let (r1, c1) = any_receiver(0x22);
    let res = Address::try_from_items(vec![r0.clone(), r1.clone()]);
    match res {
        Ok(a) => {
            assert!(c0 != c1);
            assert!(!((c0 == 0 && c1 == 1) || (c0 == 1 && c1 == 0)));
            let items = a.items_as_parsed();
            assert!(items.len() == 2);
            let (lo, hi) = if c0 < c1 { (&r0, &r1) } else { (&r1, &r0) };
            assert!(items[0] == *lo && items[1] == *hi);
            assert!(a.contains_receiver(&r0) && a.contains_receiver(&r1));
            kani::cover!(c0 > 3 && c1 == 0);
            kani::cover!(c0 == 3 && c1 == 2);
            core::mem::forget(a);
        }
        Err(e) => {
            if c0 == c1 {
                assert!(matches!(e, ParseError::DuplicateTypecode(t) if u32::from(t) == c0));
                kani::cover!(c0 > 3);
            } else {
                assert!((c0 == 0 && c1 == 1) || (c0 == 1 && c1 == 0));
                assert!(matches!(e, ParseError::BothP2phkAndP2sh));
                kani::cover!(c0 == 1);
            }
            core::mem::forget(e);
        }
    }
    core::mem::forget((r0, r1));
}

//@ {"p":"C10","tier":"quick","clause":"a unified address built from ONE receiver is accepted iff that receiver is not transparent (OnlyTransparent otherwise); the empty container is rejected as OnlyTransparent","bounds":"1 receiver of any kind; and the empty list","covers":2,"t":600,"unwindset":{"memcmp.0":45}}
#[kani::proof]
#[kani::unwind(6)]
fn c10_container_one_item() {
    let (r0, c0) = any_receiver(0x33);
    let res = Address::try_from_items(vec![r0.clone()]);
    match res {
        Ok(a) => {
            assert!(c0 >= 2);
            assert!(a.items_as_parsed().len() == 1 && a.items_as_parsed()[0] == r0);
            assert!(a.can_receive_memo() == (c0 == 2 || c0 == 3));
            kani::cover!(c0 > 3);
            core::mem::forget(a);
        }
        Err(e) => {
            assert!(c0 <= 1 && matches!(e, ParseError::OnlyTransparent));
            kani::cover!(c0 == 1);
            core::mem::forget(e);
        }
    }
    let empty = Address::try_from_items(Vec::new());
    assert!(matches!(empty, Err(ParseError::OnlyTransparent)));
    core::mem::forget(empty);
    core::mem::forget(r0);
}

//@ {"p":"C10","tier":"quick","clause":"typecode mapping: TryFrom<u32> accepts 0..=0x02000000 (0 P2PKH, 1 P2SH, 2 Sapling, 3 Orchard, else Unknown) and rejects larger values; u32::from is its inverse","bounds":"all u32","covers":2,"t":300}
#[kani::proof]
fn c10_typecode_mapping() {
    let t: u32 = kani::any();
    match Typecode::try_from(t) {
        Ok(tc) => {
            assert!(t <= 0x0200_0000);
            assert!(u32::from(tc) == t);
            assert!(matches!(tc, Typecode::Unknown(_)) == (t >= 4));
            kani::cover!(t == 0x0200_0000);
        }
        Err(e) => {
            assert!(t > 0x0200_0000);
            kani::cover!(t == 0x0200_0001);
            core::mem::forget(e);
        }
    }
}
