//! C10 (container rules) — unified addresses are accepted only when well-formed per ZIP 316,
//! through the public `Encoding::try_from_items` (which orders the items and applies the rules).
use zcash_address::unified::{Address, Container, Encoding, ParseError, Receiver, Typecode};

fn any_receiver(d: u8) -> (Receiver, u32) {
    // the payload byte is concrete (the rules do not look at payloads; a symbolic one made the
    // two-item harness take 570 s and up to 14 GB)
    let kind: u8 = kani::any();
    kani::assume(kind < 5);
    match kind {
        0 => (Receiver::P2pkh([d; 20]), 0),
        1 => (Receiver::P2sh([d; 20]), 1),
        2 => (Receiver::Sapling([d; 43]), 2),
        3 => (Receiver::Orchard([d; 43]), 3),
        _ => {
            let t: u32 = kani::any();
            kani::assume(t == 4 || t == 5 || t == 0xFFFF || t == 0x0200_0000);
            (Receiver::Unknown { typecode: t, data: vec![d] }, t)
        }
    }
}

//@ {"p":"C10","tier":"quick","clause":"a unified address built from TWO receivers is accepted iff the typecodes differ, they are not P2PKH together with P2SH (so not only transparent either); the error is DuplicateTypecode / BothP2phkAndP2sh accordingly; on success the receivers are stored in ascending typecode order, both present, unknown receivers preserved","bounds":"2 receivers, each any of P2PKH/P2SH/Sapling/Orchard/Unknown(typecode in {4, 5, 0xFFFF, 0x02000000}, 1 data byte; the full range took 550 s); payload bytes concrete","covers":4,"t":1200,"unwindset":{"memcmp.0":45}}
#[kani::proof]
#[kani::unwind(6)]
fn c10_container_two_items() {
    let (r0, c0) = any_receiver(0x11);
    let (r1, c1) = any_receiver(0x22);
    let res = Address::try_from_items(vec![r0.clone(), r1.clone()]);
    match res {
        Ok(a) => {
            assert!(c0 != c1);
            assert!(!((c0 == 0 && c1 == 1) || (c0 == 1 && c1 == 0)));
            let items = a.items_as_parsed();
            assert!(items.len() == 2);
            let (lo, hi) = if c0 < c1 { (&r0, &r1) } else { (&r1, &r0) };
            assert!(items[0] == *lo && items[1] == *hi);
            assert!(a.contains_receiver(&r0) && a.contains_receiver(&r1));
            kani::cover!(c0 > 3 && c1 == 0);
            kani::cover!(c0 == 3 && c1 == 2);
            core::mem::forget(a);
        }
        Err(e) => {
            if c0 == c1 {
                assert!(matches!(e, ParseError::DuplicateTypecode(t) if u32::from(t) == c0));
                kani::cover!(c0 > 3);
            } else {
                assert!((c0 == 0 && c1 == 1) || (c0 == 1 && c1 == 0));
                assert!(matches!(e, ParseError::BothP2phkAndP2sh));
                kani::cover!(c0 == 1);
            }
            core::mem::forget(e);
        }
    }
    core::mem::forget((r0, r1));
}

//@ {"p":"C10","tier":"quick","clause":"a unified address built from ONE receiver is accepted iff that receiver is not transparent (OnlyTransparent otherwise); the empty container is rejected as OnlyTransparent","bounds":"1 receiver of any kind; and the empty list","covers":2,"t":600,"unwindset":{"memcmp.0":45}}
#[kani::proof]
#[kani::unwind(6)]
fn c10_container_one_item() {
    let (r0, c0) = any_receiver(0x33);
    let res = Address::try_from_items(vec![r0.clone()]);
    match res {
        Ok(a) => {
            assert!(c0 >= 2);
            assert!(a.items_as_parsed().len() == 1 && a.items_as_parsed()[0] == r0);
            assert!(a.can_receive_memo() == (c0 == 2 || c0 == 3));
            kani::cover!(c0 > 3);
            core::mem::forget(a);
        }
        Err(e) => {
            assert!(c0 <= 1 && matches!(e, ParseError::OnlyTransparent));
            kani::cover!(c0 == 1);
            core::mem::forget(e);
        }
    }
    let empty = Address::try_from_items(Vec::new());
    assert!(matches!(empty, Err(ParseError::OnlyTransparent)));
    core::mem::forget(empty);
    core::mem::forget(r0);
}

//@ {"p":"C10","tier":"quick","clause":"typecode mapping: TryFrom<u32> accepts 0..=0x02000000 (0 P2PKH, 1 P2SH, 2 Sapling, 3 Orchard, else Unknown) and rejects larger values; u32::from is its inverse","bounds":"all u32","covers":2,"t":300}
#[kani::proof]
fn c10_typecode_mapping() {
    let t: u32 = kani::any();
    match Typecode::try_from(t) {
        Ok(tc) => {
            assert!(t <= 0x0200_0000);
            assert!(u32::from(tc) == t);
            assert!(matches!(tc, Typecode::Unknown(_)) == (t >= 4));
            kani::cover!(t == 0x0200_0000);
        }
        Err(e) => {
            assert!(t > 0x0200_0000);
            kani::cover!(t == 0x0200_0001);
            core::mem::forget(e);
        }
    }
}

// ---------------------------------------------------------------------------------------------
// Item rules: known typecodes carry exactly their length, P2SH is not a viewing-key item, unknown
// typecodes are preserved verbatim, typecodes above 0x02000000 are refused.
// ---------------------------------------------------------------------------------------------
use zcash_address::unified::{Fvk, Ivk};

/// Error paths build their messages with format!; the text is not the subject here.
fn format_stub(_args: core::fmt::Arguments<'_>) -> String {
    String::new()
}

macro_rules! item_rules {
    ($name:ident, $len:expr) => {
        #[kani::proof]
        #[kani::stub(alloc::fmt::format, format_stub)]
        #[kani::unwind(4)]
        fn $name() {
            const L: usize = $len;
            let t: u32 = kani::any();
            let d: [u8; L] = [0x5A; L];
            let in_range = t <= 0x0200_0000;
            // addresses: P2PKH/P2SH 20 bytes, Sapling/Orchard 43 bytes
            let r = Receiver::try_from((t, &d[..]));
            let want_r = in_range && match t {
                0 | 1 => L == 20,
                2 | 3 => L == 43,
                _ => true,
            };
            assert!(r.is_ok() == want_r);
            if let Ok(Receiver::Unknown { typecode, data }) = &r {
                assert!(*typecode == t && t >= 4 && data.len() == L);
            }
            core::mem::forget(r);
            // incoming viewing keys: P2PKH 65, Sapling/Orchard 64, P2SH never
            let i = Ivk::try_from((t, &d[..]));
            let want_i = in_range && match t {
                0 => L == 65,
                1 => false,
                2 | 3 => L == 64,
                _ => true,
            };
            assert!(i.is_ok() == want_i);
            core::mem::forget(i);
            // full viewing keys: P2PKH 65, Sapling 128, Orchard 96, P2SH never
            let f = Fvk::try_from((t, &d[..]));
            let want_f = in_range && match t {
                0 => L == 65,
                1 => false,
                2 => L == 128,
                3 => L == 96,
                _ => true,
            };
            assert!(f.is_ok() == want_f);
            core::mem::forget(f);
            kani::cover!(t == 1);
            kani::cover!(t == 0x0200_0001);
            kani::cover!(t == 7);
        }
    };
}
//@ {"p":"C10","tier":"quick","clause":"unified item rules for a 20-byte item: accepted as an address receiver for typecodes 0/1 and any unknown typecode <= 0x02000000, refused for Sapling/Orchard (wrong length) and above the range; as a viewing-key item only for unknown typecodes; typecode 1 (P2SH) is never a viewing-key item","bounds":"all u32 typecodes; item length 20 (payload concrete)","assume":"stub: alloc::fmt::format (error message text)","covers":3,"t":600,"stub":true}
item_rules!(c10_item_rules_20, 20);
//@ {"p":"C10","tier":"quick","clause":"same for a 43-byte item (Sapling/Orchard receivers)","bounds":"all u32 typecodes; item length 43","assume":"stub: alloc::fmt::format","covers":3,"t":600,"stub":true}
item_rules!(c10_item_rules_43, 43);
//@ {"p":"C10","tier":"quick","clause":"same for a 64-byte item (Sapling/Orchard incoming viewing keys)","bounds":"all u32 typecodes; item length 64","assume":"stub: alloc::fmt::format","covers":3,"t":600,"stub":true}
item_rules!(c10_item_rules_64, 64);
//@ {"p":"C10","tier":"quick","clause":"same for a 65-byte item (transparent viewing keys)","bounds":"all u32 typecodes; item length 65","assume":"stub: alloc::fmt::format","covers":3,"t":600,"stub":true}
item_rules!(c10_item_rules_65, 65);
//@ {"p":"C10","tier":"thorough","clause":"same for 96- and 128-byte items (Orchard / Sapling full viewing keys)","bounds":"all u32 typecodes; item length 96","assume":"stub: alloc::fmt::format","covers":3,"t":600,"stub":true}
item_rules!(c10_item_rules_96, 96);
//@ {"p":"C10","tier":"thorough","clause":"same for 128-byte items","bounds":"all u32 typecodes; item length 128","assume":"stub: alloc::fmt::format","covers":3,"t":600,"stub":true}
item_rules!(c10_item_rules_128, 128);

// ---------------------------------------------------------------------------------------------
// Container byte layer (through the hook): after un-jumbling, the last 16 bytes must be the HRP
// followed by zeros, and what precedes them must be tiled exactly by the items. F4Jumble itself is
// decided in c10_f4jumble.rs; here it is replaced by the identity so that the solver sees the bytes
// the parser sees.
// ---------------------------------------------------------------------------------------------
fn jumble_identity(_m: &mut [u8]) -> Result<(), f4jumble::Error> {
    Ok(())
}

macro_rules! container_padding {
    ($name:ident, $hrp:expr) => {
        #[kani::proof]
        #[kani::stub(f4jumble::f4jumble_inv_mut, jumble_identity)]
        #[kani::stub(alloc::fmt::format, format_stub)]
        #[kani::unwind(18)]
        fn $name() {
            use zcash_address::verif_hooks::address_parse_items;
            let hrp: &str = $hrp;
            let mut buf = [0x5Au8; 2 + 43 + 16];
            buf[0] = 2;
            buf[1] = 43;
            buf[2] = kani::any();
            buf[44] = kani::any();
            let pad: [u8; 16] = kani::any();
            buf[45..].copy_from_slice(&pad);
            let mut want = true;
            let hb = hrp.as_bytes();
            let mut i = 0;
            while i < 16 {
                let e = if i < hb.len() { hb[i] } else { 0 };
                if pad[i] != e {
                    want = false;
                }
                i += 1;
            }
            let r = address_parse_items(hrp, &buf[..]);
            if want {
                assert!(r.is_ok());
            } else {
                assert!(r.is_err());
            }
            if let Ok(items) = &r {
                assert!(items.len() == 1);
                match &items[0] {
                    Receiver::Sapling(d) => {
                        assert!(d[0] == buf[2] && d[42] == buf[44] && d[1] == 0x5A && d[41] == 0x5A);
                    }
                    _ => panic!("wrong item kind"),
                }
                kani::cover!(true);
            } else {
                kani::cover!(pad[15] != 0 && pad[0] == b'u');
                kani::cover!(pad[15] == 0 && pad[14] == 0 && pad[0] == b'u' && pad[1] == 0 && pad[8] == 1);
            }
            core::mem::forget(r);
        }
    };
}
//@ {"p":"C10","tier":"quick","clause":"unified address container bytes = one Sapling item (typecode 2, length 43) followed by 16 padding bytes: accepted iff the padding is exactly the HRP followed by zero bytes; on success the single item is the Sapling receiver with the 43 payload bytes","bounds":"HRP u; all 16 padding bytes symbolic; payload bytes: first and last symbolic, rest concrete; framing bytes concrete","assume":"stubs: f4jumble::f4jumble_inv_mut = identity (decided separately), alloc::fmt::format","covers":3,"t":1800,"stub":true,"replay":"model","unwindset":{"memcmp.0":45,"SealedContainer>::parse_items.0":2,"drop_glue::<[zcash_address::unified::Receiver]>.0":2}}
container_padding!(c10_container_padding_main, "u");
//@ {"p":"C10","tier":"thorough","clause":"same for the regtest HRP","bounds":"HRP uregtest; all 16 padding bytes symbolic","assume":"stubs: f4jumble::f4jumble_inv_mut = identity, alloc::fmt::format","covers":3,"t":1800,"stub":true,"replay":"model","unwindset":{"memcmp.0":45,"SealedContainer>::parse_items.0":2,"drop_glue::<[zcash_address::unified::Receiver]>.0":2}}
container_padding!(c10_container_padding_regtest, "uregtest");
//@ {"p":"C10","tier":"thorough","clause":"same for the testnet HRP","bounds":"HRP utest; all 16 padding bytes symbolic","assume":"stubs: f4jumble::f4jumble_inv_mut = identity, alloc::fmt::format","covers":3,"t":1800,"stub":true,"replay":"model","unwindset":{"memcmp.0":45,"SealedContainer>::parse_items.0":2,"drop_glue::<[zcash_address::unified::Receiver]>.0":2}}
container_padding!(c10_container_padding_test, "utest");
