//! Shared helpers for the harnesses.

/// `kani::any()` restricted to `lo..=hi`.
pub fn any_in_u64(lo: u64, hi: u64) -> u64 {
    let v: u64 = kani::any();
    kani::assume(v >= lo && v <= hi);
    v
}
