//! C09 — monetary amounts never leave the valid range or wrap.
//!
//! Oracle: exact integer arithmetic in i128/u128 on the raw 64-bit operands. All operands are
//! unconstrained `kani::any()` of the operand type (constructed through the public
//! constructors, so only in-range `Zatoshis`/`ZatBalance` exist — that is the type invariant the
//! operators are entitled to).
use core::num::NonZeroU64;
use zcash_protocol::value::{BalanceError, ZatBalance, Zatoshis, MAX_BALANCE, MAX_MONEY};

const MM: i128 = 2_100_000_000_000_000;

fn any_zat() -> Zatoshis {
    let v: u64 = kani::any();
    kani::assume(v <= MAX_MONEY);
    Zatoshis::from_u64(v).unwrap()
}
fn any_bal() -> ZatBalance {
    let v: i64 = kani::any();
    kani::assume(v >= -MAX_BALANCE && v <= MAX_BALANCE);
    ZatBalance::from_i64(v).unwrap()
}
fn zraw(z: Zatoshis) -> i128 {
    z.into_u64() as i128
}
fn braw(b: ZatBalance) -> i128 {
    i64::from(b) as i128
}
fn zat_matches(r: Option<Zatoshis>, exact: i128) {
    if (0..=MM).contains(&exact) {
        assert!(r.is_some());
        assert!(zraw(r.unwrap()) == exact);
    } else {
        assert!(r.is_none());
    }
}
fn bal_matches(r: Option<ZatBalance>, exact: i128) {
    if (-MM..=MM).contains(&exact) {
        assert!(r.is_some());
        assert!(braw(r.unwrap()) == exact);
    } else {
        assert!(r.is_none());
    }
}

//@ {"p":"C09","tier":"quick","clause":"constants MAX_MONEY/MAX_BALANCE/COIN equal 21e6*1e8; Zatoshis::from_u64 accepts exactly 0..=MAX_MONEY and returns the same integer; TryFrom<u64>","bounds":"all u64","covers":2}
#[kani::proof]
fn c09_zat_from_u64() {
    assert!(MAX_MONEY as i128 == MM && MAX_BALANCE as i128 == MM);
    assert!(zcash_protocol::value::COIN == 100_000_000);
    let v: u64 = kani::any();
    let r = Zatoshis::from_u64(v);
    let r2 = Zatoshis::try_from(v);
    assert!(r == r2);
    if (v as i128) <= MM {
        assert!(r.is_ok() && r.unwrap().into_u64() == v);
        assert!(u64::from(r.unwrap()) == v);
        kani::cover!(v == MAX_MONEY);
    } else {
        assert!(r == Err(BalanceError::Overflow));
        kani::cover!(v == MAX_MONEY + 1);
    }
}

//@ {"p":"C09","tier":"quick","clause":"Zatoshis::from_nonnegative_i64: Ok(v) iff 0<=v<=MAX_MONEY, Underflow iff v<0, Overflow iff v>MAX_MONEY","bounds":"all i64","covers":3}
#[kani::proof]
fn c09_zat_from_nonneg_i64() {
    let v: i64 = kani::any();
    let r = Zatoshis::from_nonnegative_i64(v);
    if v < 0 {
        assert!(r == Err(BalanceError::Underflow));
        kani::cover!(v == -1);
    } else if (v as i128) > MM {
        assert!(r == Err(BalanceError::Overflow));
        kani::cover!(v == MAX_BALANCE + 1);
    } else {
        assert!(r.is_ok() && zraw(r.unwrap()) == v as i128);
        kani::cover!(v == MAX_BALANCE);
    }
}

//@ {"p":"C09","tier":"quick","clause":"Zatoshis 8-byte codecs: from_u64_le_bytes / from_nonnegative_i64_le_bytes accept iff in range and decode the LE integer; to_u64_le_bytes/to_i64_le_bytes round-trip","bounds":"all 8-byte strings; all Zatoshis","covers":2}
#[kani::proof]
fn c09_zat_le_bytes() {
    let b: [u8; 8] = kani::any();
    let u = u64::from_le_bytes(b);
    let r = Zatoshis::from_u64_le_bytes(b);
    let s = Zatoshis::from_nonnegative_i64_le_bytes(b);
    if (u as i128) <= MM {
        assert!(r.is_ok() && s.is_ok());
        let z = r.unwrap();
        assert!(z.into_u64() == u && s.unwrap() == z);
        assert!(z.to_u64_le_bytes() == b);
        assert!(z.to_i64_le_bytes() == b);
        kani::cover!(u == MAX_MONEY);
    } else {
        assert!(r == Err(BalanceError::Overflow));
        if (u as i64) < 0 {
            assert!(s == Err(BalanceError::Underflow));
        } else {
            assert!(s == Err(BalanceError::Overflow));
        }
        kani::cover!(u == u64::MAX);
    }
    let z = any_zat();
    assert!(Zatoshis::from_u64_le_bytes(z.to_u64_le_bytes()) == Ok(z));
    assert!(Zatoshis::from_nonnegative_i64_le_bytes(z.to_i64_le_bytes()) == Ok(z));
}

//@ {"p":"C09","tier":"quick","clause":"Zatoshis::read on a byte slice: Ok iff >=8 bytes and value in range, consumes exactly 8; write emits the 8 LE bytes; read(write(z))==z","bounds":"all slices of length 0..=9 over a 9-byte symbolic buffer","assume":"Err values are mem::forget-ed (io::Error drop glue)","covers":3,"unwind":10}
#[kani::proof]
#[kani::unwind(10)]
fn c09_zat_read_write() {
    let buf: [u8; 9] = kani::any();
    let len: usize = kani::any();
    kani::assume(len <= 9);
    let mut rd: &[u8] = &buf[..len];
    let r = Zatoshis::read(&mut rd);
    let mut first = [0u8; 8];
    if len >= 8 {
        first.copy_from_slice(&buf[..8]);
    }
    let u = u64::from_le_bytes(first);
    match r {
        Ok(z) => {
            assert!(len >= 8 && (u as i128) <= MM && z.into_u64() == u);
            assert!(rd.len() == len - 8);
            let mut out = [0u8; 8];
            let mut w: &mut [u8] = &mut out;
            let wr = z.write(&mut w);
            assert!(wr.is_ok());
            core::mem::forget(wr);
            assert!(out == first);
            kani::cover!(len == 9 && u == MAX_MONEY);
        }
        Err(e) => {
            assert!(len < 8 || (u as i128) > MM);
            kani::cover!(len == 7);
            kani::cover!(len == 8);
            core::mem::forget(e);
        }
    }
}

//@ {"p":"C09","tier":"quick","clause":"const_from_u64 / ZatBalance::const_from_u64 / const_from_i64 return the same integer on in-range input (the documented panic on out-of-range input is the twin harness)","bounds":"all in-range 64-bit values","covers":1}
#[kani::proof]
fn c09_const_from_in_range() {
    let v: u64 = kani::any();
    kani::assume(v <= MAX_MONEY);
    assert!(Zatoshis::const_from_u64(v).into_u64() == v);
    assert!(braw(ZatBalance::const_from_u64(v)) == v as i128);
    let i: i64 = kani::any();
    kani::assume(i >= -MAX_BALANCE && i <= MAX_BALANCE);
    assert!(braw(ZatBalance::const_from_i64(i)) == i as i128);
    kani::cover!(v == MAX_MONEY && i == -MAX_BALANCE);
}

//@ {"p":"C09","tier":"quick","clause":"const_from_u64 / ZatBalance::const_from_u64 / const_from_i64 never RETURN for an out-of-range input (documented panic): the NEVER cover placed after the call must be unreachable","bounds":"all out-of-range 64-bit values","expect":"should_panic","covers":0,"never":3}
#[kani::proof]
#[kani::should_panic]
fn c09_const_from_out_of_range_never_returns() {
    let v: u64 = kani::any();
    kani::assume(v > MAX_MONEY);
    let which: u8 = kani::any();
    if which == 0 {
        let _ = Zatoshis::const_from_u64(v);
        kani::cover!(true, "NEVER: Zatoshis::const_from_u64 returned for v > MAX_MONEY");
    } else if which == 1 {
        let _ = ZatBalance::const_from_u64(v);
        kani::cover!(true, "NEVER: ZatBalance::const_from_u64 returned for v > MAX_MONEY");
    } else {
        let i: i64 = kani::any();
        kani::assume(i < -MAX_BALANCE || i > MAX_BALANCE);
        let _ = ZatBalance::const_from_i64(i);
        kani::cover!(true, "NEVER: ZatBalance::const_from_i64 returned for out-of-range i");
    }
}

//@ {"p":"C09","tier":"quick","clause":"ZatBalance::{from_i64,from_nonnegative_i64,from_u64,TryFrom<i64>}: Ok(v) iff in range, error kind = side of the range","bounds":"all i64 / u64","covers":4}
#[kani::proof]
fn c09_bal_constructors() {
    let v: i64 = kani::any();
    let r = ZatBalance::from_i64(v);
    assert!(r == ZatBalance::try_from(v));
    if (v as i128) < -MM {
        assert!(r == Err(BalanceError::Underflow));
        kani::cover!(v == -MAX_BALANCE - 1);
    } else if (v as i128) > MM {
        assert!(r == Err(BalanceError::Overflow));
        kani::cover!(v == MAX_BALANCE + 1);
    } else {
        assert!(r.is_ok() && braw(r.unwrap()) == v as i128);
        assert!(i64::from(r.unwrap()) == v && i64::from(&r.unwrap()) == v);
        kani::cover!(v == -MAX_BALANCE);
    }
    let n = ZatBalance::from_nonnegative_i64(v);
    if v < 0 {
        assert!(n == Err(BalanceError::Underflow));
    } else if (v as i128) > MM {
        assert!(n == Err(BalanceError::Overflow));
    } else {
        assert!(n.is_ok() && braw(n.unwrap()) == v as i128);
    }
    let u: u64 = kani::any();
    let q = ZatBalance::from_u64(u);
    if (u as i128) > MM {
        assert!(q == Err(BalanceError::Overflow));
        kani::cover!(u == 1u64 << 63);
    } else {
        assert!(q.is_ok() && braw(q.unwrap()) == u as i128);
    }
}

//@ {"p":"C09","tier":"quick","clause":"ZatBalance 8-byte codecs accept iff in range, decode the LE integer, to_i64_le_bytes round-trips","bounds":"all 8-byte strings; all ZatBalance","covers":2}
#[kani::proof]
fn c09_bal_le_bytes() {
    let b: [u8; 8] = kani::any();
    let i = i64::from_le_bytes(b);
    let u = u64::from_le_bytes(b);
    let r = ZatBalance::from_i64_le_bytes(b);
    if (-MM..=MM).contains(&(i as i128)) {
        assert!(r.is_ok() && braw(r.unwrap()) == i as i128);
        assert!(r.unwrap().to_i64_le_bytes() == b);
        kani::cover!(i == -1);
    } else {
        assert!(r.is_err());
        assert!((r == Err(BalanceError::Underflow)) == (i < 0));
        kani::cover!(i == i64::MIN);
    }
    let n = ZatBalance::from_nonnegative_i64_le_bytes(b);
    assert!(n.is_ok() == (0..=MM).contains(&(i as i128)));
    if let Ok(x) = n {
        assert!(braw(x) == i as i128);
    }
    let q = ZatBalance::from_u64_le_bytes(b);
    assert!(q.is_ok() == ((u as i128) <= MM));
    if let Ok(x) = q {
        assert!(braw(x) == u as i128);
    }
    let z = any_bal();
    assert!(ZatBalance::from_i64_le_bytes(z.to_i64_le_bytes()) == Ok(z));
}

//@ {"p":"C09","tier":"quick","clause":"Zatoshis + Zatoshis and Option<Zatoshis> + Zatoshis equal the exact sum or None","bounds":"all pairs of Zatoshis","covers":2}
#[kani::proof]
fn c09_zat_add() {
    let a = any_zat();
    let b = any_zat();
    let r = a + b;
    zat_matches(r, zraw(a) + zraw(b));
    assert!(Some(a) + b == r);
    assert!((None::<Zatoshis> + b).is_none());
    kani::cover!(r.is_none());
    kani::cover!(r.is_some() && r.unwrap().into_u64() == MAX_MONEY);
}

//@ {"p":"C09","tier":"quick","clause":"Zatoshis - Zatoshis and Option-lifted: exact difference or None when negative","bounds":"all pairs of Zatoshis","covers":2}
#[kani::proof]
fn c09_zat_sub() {
    let a = any_zat();
    let b = any_zat();
    let r = a - b;
    zat_matches(r, zraw(a) - zraw(b));
    assert!(Some(a) - b == r);
    assert!((None::<Zatoshis> - b).is_none());
    kani::cover!(r.is_none());
    kani::cover!(r.is_some() && r.unwrap().into_u64() == 0);
}

//@ {"p":"C09","tier":"quick","clause":"Zatoshis * u64 equals the exact 128-bit product or None","bounds":"all Zatoshis x all u64 (2^115 pairs)","covers":2,"t":600}
#[kani::proof]
fn c09_zat_mul_u64() {
    let a = any_zat();
    let m: u64 = kani::any();
    let r = a * m;
    let exact = (a.into_u64() as u128) * (m as u128);
    if exact <= MM as u128 {
        assert!(r.is_some() && r.unwrap().into_u64() as u128 == exact);
    } else {
        assert!(r.is_none());
    }
    kani::cover!(r.is_some() && r.unwrap().into_u64() == MAX_MONEY && m > 1);
    kani::cover!(r.is_none() && m == 2);
}

//@ {"p":"C09","tier":"quick","clause":"Zatoshis * usize agrees with Zatoshis * u64","bounds":"all Zatoshis x all usize","covers":1,"t":600}
#[kani::proof]
fn c09_zat_mul_usize() {
    let a = any_zat();
    let m: usize = kani::any();
    let r = a * m;
    let exact = (a.into_u64() as u128) * (m as u128);
    if exact <= MM as u128 {
        assert!(r.is_some() && r.unwrap().into_u64() as u128 == exact);
    } else {
        assert!(r.is_none());
    }
    kani::cover!(r.is_some() && m == 3);
}

macro_rules! div_by {
    ($name:ident, $d:expr) => {
        #[kani::proof]
        fn $name() {
            const D: u64 = $d;
            let a = any_zat();
            let nz = NonZeroU64::new(D).unwrap();
            let q = a / nz;
            let qr = a.div_with_remainder(nz);
            assert!(*qr.quotient() == q);
            let (qv, rv) = (q.into_u64(), qr.remainder().into_u64());
            // the definition of truncating division: a = q*d + r with 0 <= r < d
            let prod = qv.checked_mul(D);
            assert!(prod.is_some());
            assert!(prod.unwrap().checked_add(rv) == Some(a.into_u64()));
            assert!(rv < D);
            assert!(qv <= MAX_MONEY && rv <= MAX_MONEY);
            kani::cover!(rv == D - 1 || (D > MAX_MONEY && rv == MAX_MONEY));
        }
    };
}

//@ {"p":"C09","tier":"quick","clause":"Zatoshis / d and div_with_remainder(d) satisfy the definition a = q*d + r, 0 <= r < d, both in range; d = 1","bounds":"all Zatoshis; concrete divisor (a symbolic 64-bit divisor did not finish in 900 s even restricted to 1..=255; the constants 5000 and 10^8 did not finish in 600 s either and are outside the claim)","covers":1,"t":600}
div_by!(c09_zat_div_by_1, 1);
//@ {"p":"C09","tier":"quick","clause":"same, d = 3","bounds":"all Zatoshis; concrete divisor","covers":1,"t":600}
div_by!(c09_zat_div_by_3, 3);
macro_rules! div_by_machine {
    ($name:ident, $d:expr) => {
        #[kani::proof]
        fn $name() {
            const D: u64 = $d;
            let a = any_zat();
            let nz = NonZeroU64::new(D).unwrap();
            let q = a / nz;
            let qr = a.div_with_remainder(nz);
            assert!(q.into_u64() == a.into_u64() / D);
            assert!(qr.quotient().into_u64() == a.into_u64() / D);
            assert!(qr.remainder().into_u64() == a.into_u64() % D);
            kani::cover!(a.into_u64() == MAX_MONEY);
        }
    };
}

//@ {"p":"C09","tier":"quick","clause":"same, d = MAX_MONEY + 1 (quotient always 0)","bounds":"all Zatoshis; concrete divisor","covers":1,"t":600}
div_by!(c09_zat_div_by_mm1, MAX_MONEY + 1);
//@ {"p":"C09","tier":"quick","clause":"same, d = u64::MAX","bounds":"all Zatoshis; concrete divisor","covers":1,"t":600}
div_by!(c09_zat_div_by_max, u64::MAX);
//@ {"p":"C09","tier":"seeded:c09div","clause":"same, d = 2","bounds":"all Zatoshis; concrete divisor","covers":1,"t":600}
div_by!(c09_zat_div_by_2, 2);
//@ {"p":"C09","tier":"seeded:c09div","clause":"same, d = 7","bounds":"all Zatoshis; concrete divisor","covers":1,"t":600}
div_by!(c09_zat_div_by_7, 7);
//@ {"p":"C09","tier":"seeded:c09div","clause":"machine-division oracle, d = MAX_MONEY","bounds":"all Zatoshis; concrete divisor","covers":1,"t":600}
div_by_machine!(c09_zat_div_by_mm, MAX_MONEY);
//@ {"p":"C09","tier":"seeded:c09div","clause":"machine-division oracle, d = 2^32+1","bounds":"all Zatoshis; concrete divisor","covers":1,"t":600}
div_by_machine!(c09_zat_div_by_2p32, 4294967297);

//@ {"p":"C09","tier":"quick","clause":"-Zatoshis is the exact negation as ZatBalance; -ZatBalance exact and in range; is_positive/is_negative/is_zero","bounds":"all Zatoshis, all ZatBalance","covers":2}
#[kani::proof]
fn c09_neg_and_predicates() {
    let a = any_zat();
    let n = -a;
    assert!(braw(n) == -zraw(a));
    assert!(a.is_zero() == (zraw(a) == 0) && a.is_positive() == (zraw(a) > 0));
    let b = any_bal();
    let m = -b;
    assert!(braw(m) == -braw(b) && (-MM..=MM).contains(&braw(m)));
    assert!(b.is_positive() == (braw(b) > 0) && b.is_negative() == (braw(b) < 0));
    assert!(braw(ZatBalance::zero()) == 0 && zraw(Zatoshis::ZERO) == 0);
    kani::cover!(braw(n) == -MM);
    kani::cover!(braw(m) == MM);
}

//@ {"p":"C09","tier":"quick","clause":"ZatBalance +/- ZatBalance (and Option-lifted): exact result or None","bounds":"all pairs of ZatBalance","covers":3}
#[kani::proof]
fn c09_bal_add_sub() {
    let a = any_bal();
    let b = any_bal();
    let s = a + b;
    let d = a - b;
    bal_matches(s, braw(a) + braw(b));
    bal_matches(d, braw(a) - braw(b));
    assert!(Some(a) + b == s && Some(a) - b == d);
    assert!((None::<ZatBalance> + b).is_none() && (None::<ZatBalance> - b).is_none());
    kani::cover!(s.is_none() && braw(a) < 0);
    kani::cover!(d.is_none() && braw(a) > 0);
    kani::cover!(s.is_some() && braw(s.unwrap()) == -MM);
}

//@ {"p":"C09","tier":"quick","clause":"ZatBalance +/- Zatoshis (and Option-lifted): exact result or None","bounds":"all ZatBalance x all Zatoshis","covers":2}
#[kani::proof]
fn c09_bal_add_sub_zat() {
    let a = any_bal();
    let z = any_zat();
    let s = a + z;
    let d = a - z;
    bal_matches(s, braw(a) + zraw(z));
    bal_matches(d, braw(a) - zraw(z));
    assert!(Some(a) + z == s && Some(a) - z == d);
    assert!((None::<ZatBalance> + z).is_none() && (None::<ZatBalance> - z).is_none());
    kani::cover!(s.is_none());
    kani::cover!(d.is_none());
}

//@ {"p":"C09","tier":"quick","clause":"ZatBalance * usize: exact 128-bit product or None","bounds":"all ZatBalance x all usize","covers":2,"t":900}
#[kani::proof]
fn c09_bal_mul_usize() {
    let a = any_bal();
    let m: usize = kani::any();
    let r = a * m;
    // |a| <= 2.1e15 < 2^51 and m < 2^64, so the exact product fits i128.
    let exact = braw(a) * (m as i128);
    bal_matches(r, exact);
    kani::cover!(r.is_some() && braw(r.unwrap()) == -MM && m == 2);
    kani::cover!(r.is_none() && m > (i64::MAX as usize));
}

//@ {"p":"C09","tier":"quick","clause":"conversions: Zatoshis->ZatBalance exact; ZatBalance->Zatoshis / ->u64 Ok iff non-negative with the same integer, else Underflow","bounds":"all ZatBalance, all Zatoshis","covers":2}
#[kani::proof]
fn c09_conversions() {
    let z = any_zat();
    assert!(braw(ZatBalance::from(z)) == zraw(z) && braw(ZatBalance::from(&z)) == zraw(z));
    let b = any_bal();
    let r = Zatoshis::try_from(b);
    let u = u64::try_from(b);
    if braw(b) >= 0 {
        assert!(r.is_ok() && zraw(r.unwrap()) == braw(b));
        assert!(u.is_ok() && u.unwrap() as i128 == braw(b));
        kani::cover!(braw(b) == MM);
    } else {
        assert!(r == Err(BalanceError::Underflow) && u == Err(BalanceError::Underflow));
        kani::cover!(braw(b) == -1);
    }
}

//@ {"p":"C09","tier":"quick","clause":"Sum impls (by value and by reference) and ZatBalance::sum over 3 elements: exact total iff every prefix sum is in range (left fold), else None","bounds":"3 elements, all values","covers":3,"unwind":5}
#[kani::proof]
#[kani::unwind(5)]
fn c09_sums() {
    let z = [any_zat(), any_zat(), any_zat()];
    let t: Option<Zatoshis> = z.iter().sum();
    let t2: Option<Zatoshis> = z.into_iter().sum();
    let p1 = zraw(z[0]) + zraw(z[1]);
    let p2 = p1 + zraw(z[2]);
    assert!(t == t2);
    if p1 <= MM && p2 <= MM {
        assert!(t.is_some() && zraw(t.unwrap()) == p2);
    } else {
        assert!(t.is_none());
    }
    kani::cover!(t.is_none() && p1 <= MM);
    let b = [any_bal(), any_bal(), any_bal()];
    let s: Option<ZatBalance> = b.iter().sum();
    let s2: Option<ZatBalance> = b.into_iter().sum();
    let s3 = ZatBalance::sum(b);
    let q1 = braw(b[0]) + braw(b[1]);
    let q2 = q1 + braw(b[2]);
    assert!(s == s2 && s == s3);
    if (-MM..=MM).contains(&q1) && (-MM..=MM).contains(&q2) {
        assert!(s.is_some() && braw(s.unwrap()) == q2);
    } else {
        assert!(s.is_none());
    }
    // a prefix overflow is sticky even when the total would be back in range
    kani::cover!(s.is_none() && (-MM..=MM).contains(&q2));
    kani::cover!(s.is_some() && q2 == -MM);
}

// (A Sum harness over 8800 terms - what the seeded change C09-m3 needs - did not finish: the
// early exit of try_fold is symbolic, so CBMC unrolls all 8800 iterations. Outside the claim.)
