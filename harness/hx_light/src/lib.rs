//! Kani harnesses over the light crates of /repo (path dependencies; the encoding is
//! regenerated from /repo's working tree on every run).
//!
//! Every harness is preceded by a `//@ {json}` line read by /verif/vt:
//!   p       property id
//!   tier    "quick" | "thorough"   (thorough runs quick + thorough)
//!   clause  what the harness decides, in words
//!   bounds  stated bounds
//!   assume  assumptions / stubs
//!   t       timeout in seconds (default 300)
//!   covers  number of kani::cover! witnesses that must be SATISFIED
#![allow(dead_code, unused_imports, clippy::all)]

#[cfg(kani)]
mod util;

#[cfg(kani)]
mod c09_value;

#[cfg(kani)]
mod c19_equihash;

#[cfg(kani)]
mod c20_history;

#[cfg(kani)]
mod c12_memo;

#[cfg(kani)]
mod c03_codecs;

#[cfg(kani)]
mod c10_f4jumble;

#[cfg(kani)]
mod c10_container;
